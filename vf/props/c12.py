"""C12 A job that fits is eventually scheduled (no lost wake-ups)."""
from __future__ import annotations

from vf.core import Prop
from vf import sched_model as sm
from vf.props.c10 import classify

prop = Prop(
    "C12",
    level="exploration",
    technique="Hypothesis PBT: safety-at-quiescence on the deterministic loop. At every quiescent point of a generated "
              "schedule/notify history no schedule() call may still be waiting while the independent accounting finds a "
              "surviving target with enough free capacity; a notify that never returns is an exact deadlock verdict",
    rule=(
        "same history domain as C10 (see vf/sched_model.py), retry_delay unset so progress depends only on notify_all; "
        "running jobs released one notification per quiescent point in a drawn order. Non-trivial = >= 1 request was found "
        "waiting at a quiescent point and was granted later (measured); distinct by the whole case."
    ),
    level_text="Random search; the liveness claim is decided as a safety property at the exact quiescent points of finite histories.",
    level_note="'Eventually' is decided up to quiescence of a finite history; unbounded fairness is not addressed. A request is "
               "required to be granted only if some target can host it given what the model says is free (capacity minus "
               "reservations of fireable/running jobs minus retained directory usage).",
    assumptions=["notification histories follow the callers' protocol (DESIGN R1c)", "values are multiples of 1/8 (exact float arithmetic)"],
)
prop.engine = "detloop"


@prop.given("histories", sm.history_case(), quick=3000, thorough=100000)
async def check_histories(case, rec):
    h = await sm.run_history(case, "C12")
    classify(h, rec, "C12")
    rec.nontrivial(not h.aborted and (h.stats["waited_granted"] >= 1))


@prop.enumerated("exhaustive-2jobs", sm.exhaustive_blocks)
async def check_exhaustive(case, rec):
    await sm.run_exhaustive_block(case, "C12", rec)
