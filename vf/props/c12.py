"""C12 A job that fits is eventually scheduled (no lost wake-ups)."""
from __future__ import annotations

from vf.core import Prop
from vf import sched_model as sm
from vf.props.c10 import classify

prop = Prop(
    "C12",
    level="exploration",
    technique="Hypothesis PBT: safety-at-quiescence on the deterministic loop. At every quiescent point of a generated "
              "schedule/notify history no schedule() call may still be waiting while the independent accounting finds a "
              "target of its binding with enough free capacity; a scheduler call that never returns is an exact deadlock "
              "verdict of the loop; bounded-exhaustive 2-job subspace",
    rule=(
        "histories: the domain of C10 (vf/sched_model.py), retry_delay unset so that progress depends only on notify_all; "
        "fireable/running jobs are released one notification per quiescent point in a drawn order. Non-trivial = >= 1 request "
        "was found waiting at a quiescent point and was granted later (measured); distinct by the whole case. "
        "exhaustive-2jobs (see C10): non-trivial = same."
    ),
    level_text="Random search plus a small exhaustive subspace; the liveness claim is decided as a safety property at the exact "
               "quiescent points of finite histories.",
    level_note="'Eventually' is decided up to quiescence of a finite history; unbounded fairness is not addressed. A request must "
               "be granted only if some target can host it (jointly, for multi-location targets) given what the model says is "
               "free: capacity minus reservations of fireable/running jobs minus retained directory usage. Known findings "
               "(stacked deployments only): see C11; each starves later requests.",
    assumptions=["notification histories follow the callers' protocol (DESIGN R1c)", "values are multiples of 1/8 (exact float arithmetic)",
                 "jobs use at most the storage they requested"],
)
prop.engine = "detloop"


@prop.given("histories", sm.history_case(), quick=4000, thorough=150000)
async def check_histories(case, rec):
    h = await sm.run_history(case, "C12")
    classify(h, rec, "C12")
    rec.nontrivial(not h.aborted and (h.stats["waited_granted"] >= 1))


@prop.enumerated("exhaustive-2jobs", sm.exhaustive_blocks)
async def check_exhaustive(case, rec):
    await sm.run_exhaustive_block(case, "C12", rec)
