"""C27 Batch jobs complete only after leaving the queue, with their own output and exit code;
undeploying cancels exactly the jobs still queued.

The real ``SlurmConnector`` (deployed through the context's deployment manager, wrapping a local
deployment) talks to the fake ``sbatch`` / ``squeue`` / ``scontrol`` / ``scancel`` of
``vf/fakes/slurm``. Every verdict is read from the fake queue's sequence-numbered event log, to
which the harness appends its own events (``call`` / ``returned`` / ``raised`` /
``undeploy-begin`` / ``undeploy-end``) under the same lock; clocks are never consulted.
"""
from __future__ import annotations

import hashlib

from hypothesis import strategies as st

from vf.core import Prop, Violation, canon_json

prop = Prop(
    "C27",
    level="exploration",
    technique=(
        "Hypothesis PBT of the real SlurmConnector over fake sbatch/squeue/scontrol/scancel executables; "
        "history oracle on a sequence-numbered event log shared by the fake queue and the harness"
    ),
    rule=(
        "1..6 concurrent run(job_name=...) calls (unique nonce, exit code 0..255, run time 0..0.3 s, call made after a drawn number of log events, "
        "service none / sbatch options / template file, output captured or redirected to a file) throttled by the "
        "location's slots (= maxConcurrentJobs 1..6), pollingInterval 0.05 / 0.2 / 1, drawn PENDING / COMPLETING "
        "delays of the queue and number of polls a job outlasts, job ids starting at a drawn number, one undeploy per case: after all calls ended, or "
        "after the k-th job life-cycle event of the log with the calls still in flight or cancelled first. "
        "Non-trivial = measured from the log: two jobs were in the queue at the same time (submit of one before "
        "finish/cancel of the other and vice versa) and their drawn run times differ; distinct by the whole case."
    ),
    level_text=(
        "Random search over submission/polling/undeploy interleavings produced by real processes; each case is "
        "decided exactly on its own event log (order of state transitions of the queue vs. order of the connector's "
        "reports), both directions for the cancel set."
    ),
    level_note=(
        "Interleavings are produced by real time (sleeps of the jobs, polling interval), so a case's history is not "
        "reproducible bit by bit (a violating history is reported with its full event log; its verdict is kept for "
        "Hypothesis's confirmation re-run); the oracle is order-based and therefore independent of speed. The fake queue is the "
        "trusted base: it emulates the CLI subset the connector uses (sbatch --parsable with script on stdin, "
        "squeue -h -j -t -O JOBID, scontrol show -o job, scancel ids). Polling intervals below 1 s are the schema's "
        "integer seconds scaled down together with the job run times."
    ),
    assumptions=[
        "the queue manager answers squeue/scontrol for finished jobs (Slurm MinJobAge) for the duration of a case",
        "jobs whose submission the connector has not yet seen acknowledged when undeploy starts (sbatch still in "
        "flight) are not required to be cancelled",
        "what run() yields for a job cancelled by undeploy, and whether run() raises once undeploy has begun, is "
        "not part of the statement and is accepted either way",
    ],
)

LIFECYCLE = ("submit", "start", "exit", "finish")
SERVICES = {"none": None, "opts": "svc_opts", "tmpl": "svc_tmpl"}

job_desc = st.fixed_dictionaries(
    {
        "ms": st.sampled_from([0, 20, 50, 100, 150, 200, 300]),
        "code": st.one_of(st.sampled_from([0, 0, 1, 2, 127, 255]), st.integers(0, 255)),
        "after_ev": st.sampled_from([0, 0, 0, 1, 2, 3, 5, 8, 12]),
        "svc": st.sampled_from(["none", "none", "opts", "tmpl"]),
        "out": st.sampled_from(["capture", "capture", "capture", "file"]),
    }
)


@st.composite
def case_strategy(draw):
    n = draw(st.integers(1, 6))
    jobs = draw(st.lists(job_desc, min_size=n, max_size=n))
    point = st.integers(0, 4 * n)  # number of job life-cycle events (submit/start/exit/finish) to wait for
    und = draw(
        st.one_of(
            st.none(),
            st.fixed_dictionaries({"after": point, "mode": st.just("inflight")}),
            st.fixed_dictionaries({"after": point, "mode": st.just("inflight")}),
            st.fixed_dictionaries({"after": point, "mode": st.just("cancel-first")}),
        )
    )
    return {
        "jobs": jobs,
        "polling": draw(st.sampled_from([0.05] * 6 + [0.2] * 6 + [1])),
        "slots": draw(st.integers(1, 6)),
        "first_id": draw(st.sampled_from([1, 7, 98, 41000])),
        "pending_ms": draw(st.lists(st.sampled_from([0, 0, 20, 100]), min_size=1, max_size=3)),
        "completing_ms": draw(st.lists(st.sampled_from([0, 0, 20, 100]), min_size=1, max_size=3)),
        "min_polls": draw(st.lists(st.sampled_from([0, 0, 1, 1, 2, 3]), min_size=1, max_size=3)),
        "undeploy": und,
    }


def nonce_of(case, i: int) -> str:
    j = case["jobs"][i]
    h = hashlib.sha1(f"{case['first_id']}/{i}/{j['ms']}/{j['code']}".encode()).hexdigest()[:10]
    return f"vf{i}x{h}"


# A case's history depends on real time, so running the same case twice need not give the same
# history. Hypothesis re-executes a failing example to confirm it and calls a disagreement "flaky";
# the first observed history *is* a genuine behaviour of the code, so its verdict is kept and
# re-raised when the same case comes back within this process (a --replay runs live again).
_verdicts: dict[str, BaseException] = {}


@prop.given("queue", case_strategy(), quick=160, thorough=800, loop="std", case_timeout=600, shrink=False)
async def check_queue(case, rec):
    import asyncio
    import gc
    import os
    import shutil
    import tempfile

    from streamflow.core.deployment import DeploymentConfig, WrapsConfig
    from vf.engine.harness import make_context
    from vf.fakes.slurm import ENV, FakeSlurm

    case_key = canon_json(case)
    if case_key in _verdicts:
        raise _verdicts[case_key]
    n = len(case["jobs"])
    und = case["undeploy"]
    tmp = tempfile.mkdtemp(prefix="vf-c27-")
    saved_env = {k: os.environ.get(k) for k in ("PATH", ENV)}
    fake = FakeSlurm(
        os.path.join(tmp, "fq"),
        first_id=case["first_id"],
        pending=[m / 1000 for m in case["pending_ms"]],
        completing=[m / 1000 for m in case["completing_ms"]],
        min_polls=case["min_polls"],
        max_jobs=n + 2,
    )
    ctx = None
    failures: dict[int, BaseException] = {}
    undeploy_exc: list[BaseException] = []
    try:
        os.environ.update(fake.env())
        wd = os.path.join(tmp, "wd")
        os.makedirs(wd)
        tmpl = os.path.join(tmp, "service.sh")
        with open(tmpl, "w") as f:
            f.write('#!/bin/sh\n# service template\necho "tmpl:{{streamflow_workdir}}"\n{{streamflow_command}}\n')
        ctx = make_context(workdir=tmp)
        dm = ctx.deployment_manager
        await dm.deploy(DeploymentConfig(name="c27-inner", type="local", config={}, external=True, lazy=False, workdir=wd))
        slurm_config = DeploymentConfig(
            name="c27-slurm",
            type="slurm",
            config={
                "maxConcurrentJobs": case["slots"],
                "pollingInterval": case["polling"],
                "services": {
                    "svc_opts": {"partition": "docker", "nodes": 2, "ntasksPerNode": 1},
                    "svc_tmpl": {"file": tmpl},
                },
            },
            external=False,
            lazy=False,
            workdir=wd,
            wraps=WrapsConfig(deployment="c27-inner"),
        )
        try:
            await dm.deploy(slurm_config)
        except ValueError as e:
            if case["polling"] == 0 and "global_ttl" in str(e):
                rec.label("polling=0", f"jobs={n}")
                raise Violation(
                    "C27:deploy:polling-interval-zero-rejected",
                    f"pollingInterval: 0 (an integer, as the schema asks) cannot be deployed: {type(e).__name__}: {e}",
                ) from e
            raise
        connector = dm.get_connector("c27-slurm")
        locations = {}
        slots = None
        for key, service in SERVICES.items():
            avail = next(iter((await connector.get_available_locations(service=service)).values()))
            locations[key] = avail.location
            slots = avail.slots
        # the scheduler hands out at most `slots` jobs of the location at a time
        sem = asyncio.Semaphore(slots)
        undeploying = asyncio.Event()
        state = {"inflight": 0}

        def outfile(i):
            return os.path.join(wd, f"out-{i}.txt")

        async def one(i: int):
            jd = case["jobs"][i]
            nonce = nonce_of(case, i)
            # the call is made once the log holds `after_ev` events (models the time upstream steps
            # take, in events instead of seconds) - or at once if nothing else is going on
            while fake.count() < jd["after_ev"] and state["inflight"] > 0 and not undeploying.is_set():
                await asyncio.sleep(0.004)
            async with sem:
                if undeploying.is_set():
                    fake.append("not-started", idx=i)
                    return
                command = ["echo", f"{nonce}-a", ";"]
                if jd["ms"]:
                    command += ["sleep", str(jd["ms"] / 1000), ";"]
                command += ["echo", '"${VF_TAG}-b"', ";", "exit", str(jd["code"])]
                kwargs = {}
                if jd["out"] == "file":
                    kwargs["stdout"] = outfile(i)
                fake.append("call", idx=i)
                state["inflight"] += 1
                try:
                    res = await connector.run(
                        locations[jd["svc"]],
                        command,
                        environment={"VF_TAG": nonce},
                        workdir=wd,
                        capture_output=True,
                        job_name=f"/step{i}/0",
                        **kwargs,
                    )
                except asyncio.CancelledError:
                    fake.append("cancelled", idx=i)
                    raise
                except Exception as e:  # noqa: BLE001 - classified by the oracle below
                    failures[i] = e
                    fake.append("raised", idx=i, type=type(e).__name__, msg=str(e)[:200])
                else:
                    content = None
                    if jd["out"] == "file":
                        try:
                            with open(outfile(i), errors="replace") as f:
                                content = f.read()
                        except OSError:
                            content = None
                    fake.append("returned", idx=i, out=res[0], code=res[1], file=content, wd=wd)
                finally:
                    state["inflight"] -= 1

        async def undeploy():
            undeploying.set()
            fake.append("undeploy-begin")
            try:
                await dm.undeploy("c27-slurm")
            except Exception as e:  # noqa: BLE001
                undeploy_exc.append(e)
                fake.append("undeploy-raised", type=type(e).__name__, msg=str(e)[:200])
            else:
                fake.append("undeploy-end")

        tasks = [asyncio.create_task(one(i)) for i in range(n)]
        if und is not None:
            while fake.count(LIFECYCLE) < und["after"] and not all(t.done() for t in tasks):
                await asyncio.sleep(0.004)
            if und["mode"] == "cancel-first":
                for t in tasks:
                    t.cancel()
                await asyncio.gather(*tasks, return_exceptions=True)
            await undeploy()
        for r in await asyncio.gather(*tasks, return_exceptions=True):
            if isinstance(r, BaseException) and not isinstance(r, asyncio.CancelledError):
                raise r  # harness bug inside one(): not an outcome of the code under test
        if und is None:
            await undeploy()
        events = fake.events()
        for e in events:
            if e["ev"] == "submit":
                e["script"] = fake.script_of(e["job"])
    finally:
        try:
            if ctx is not None:
                await ctx.close()
        finally:
            # no process may outlive the case: the queue's runners and job scripts, and the connector's
            # own `sh -c` commands whose callers were cancelled (all carry the queue's state directory in
            # their environment). Transports of cancelled subprocess calls are finalised while the loop
            # is still alive.
            fake.close()
            gc.collect()
            for _ in range(3):
                await asyncio.sleep(0)
            for k, v in saved_env.items():
                if v is None:
                    os.environ.pop(k, None)
                else:
                    os.environ[k] = v
            shutil.rmtree(tmp, ignore_errors=True)

    try:
        judge(case, events, failures, undeploy_exc, rec)
    except Exception as e:  # noqa: BLE001
        _verdicts[case_key] = e
        raise


def judge(case, events, failures, undeploy_exc, rec):
    n = len(case["jobs"])
    und = case["undeploy"]
    nonces = [nonce_of(case, i) for i in range(n)]

    def fmt(evs=None):
        keep = ("seq", "ev", "job", "idx", "requested", "listed", "out", "code", "exit", "type", "msg", "was", "state")
        return "\n".join(str({k: e[k] for k in keep if k in e}) for e in (evs or events))

    def seq_of(ev, **match):
        return [e["seq"] for e in events if e["ev"] == ev and all(e.get(k) == v for k, v in match.items())]

    if any(e["ev"] == "runner-error" for e in events):
        raise RuntimeError("fake slurm runner failed:\n" + fmt())  # harness error

    # ---- which job id belongs to which call: by the nonce inside the submitted script -------------
    job_of: dict[int, str] = {}
    idx_of: dict[str, int] = {}
    for e in events:
        if e["ev"] != "submit":
            continue
        owners = [i for i in range(n) if nonces[i] in e.get("script", "")]
        if len(owners) != 1:
            raise Violation("C27:submit:script-not-of-one-call", f"job {e['job']} script matches calls {owners}\n{fmt()}")
        i = owners[0]
        if i in job_of:
            raise Violation("C27:submit:twice", f"call {i} submitted jobs {job_of[i]} and {e['job']}\n{fmt()}")
        job_of[i] = e["job"]
        idx_of[e["job"]] = i

    first = lambda xs: xs[0] if xs else None  # noqa: E731
    submit = {j: first(seq_of("submit", job=j)) for j in idx_of}
    finish = {j: first(seq_of("finish", job=j)) for j in idx_of}
    cancel = {j: first(seq_of("cancel", job=j)) for j in idx_of}
    ub = first(seq_of("undeploy-begin"))
    ue = first(seq_of("undeploy-end"))
    last = events[-1]["seq"] + 1

    if ub is None:
        raise RuntimeError("harness: undeploy was not performed\n" + fmt())

    # ---- derived sets ------------------------------------------------------------------------------
    returned_at = {job_of[e["idx"]]: e["seq"] for e in events if e["ev"] == "returned" and e["idx"] in job_of}
    known = set()  # ids the connector has shown to know before undeploy began (it asked squeue about them)
    for e in events:
        if e["ev"] == "squeue" and e["seq"] < ub:
            known.update(e.get("requested") or [])
    must = [
        j for j in idx_of
        if submit[j] < ub and j in known and (finish[j] is None or finish[j] > ub) and returned_at.get(j, last) > ub
    ]
    # ---- classification (measured; before the verdicts, so that violating cases are classified too) ----
    def interval(j):
        end = min(x for x in (finish[j], cancel[j], last) if x is not None)
        return submit[j], end

    overlap = False
    js = list(idx_of)
    for a in range(len(js)):
        for b in range(a + 1, len(js)):
            (s1, e1), (s2, e2) = interval(js[a]), interval(js[b])
            if s1 < e2 and s2 < e1 and case["jobs"][idx_of[js[a]]]["ms"] != case["jobs"][idx_of[js[b]]]["ms"]:
                overlap = True
    rec.nontrivial(overlap)
    rec.label(f"jobs={n}", f"polling={case['polling']}")
    rec.label("slots<jobs" if case["slots"] < n else "slots>=jobs")
    rec.label("undeploy=" + ("at-end" if und is None else und["mode"]))
    ncancel = sum(1 for c in cancel.values() if c is not None)
    rec.label("cancelled=0" if ncancel == 0 else "cancelled=1" if ncancel == 1 else "cancelled>=2")
    if any(e["ev"] == "cancel-noop" for e in events):
        rec.label("scancel-of-finished-job")
    if must:
        rec.label("undeploy-with-known-queued-jobs")
    nret = sum(1 for e in events if e["ev"] == "returned")
    rec.label("returned=0" if nret == 0 else "returned=all" if nret == n else "returned=some")
    if any(e["ev"] == "raised" for e in events):
        rec.label("run-raised-after-undeploy:" + ",".join(sorted({e["type"] for e in events if e["ev"] == "raised"})))
    if any(e["ev"] == "squeue" and e.get("listed") for e in events):
        rec.label("poll-saw-queued-job")
    # a submission while another job of the connector was being polled (the jobs cache matters here)
    polled_before = False
    for j in idx_of:
        if any(e["ev"] == "squeue" and e["seq"] < submit[j] and any(finish.get(x) is None or finish[x] > submit[j] for x in (e.get("listed") or [])) for e in events):
            polled_before = True
    if polled_before:
        rec.label("submit-while-polling")
    if any(case["jobs"][i]["out"] == "file" for i in job_of):
        rec.label("stdout-to-file")
    for k in ("opts", "tmpl"):
        if any(case["jobs"][i]["svc"] == k for i in job_of):
            rec.label(f"service-{k}")
    if any(submit[j] > ub for j in idx_of):
        rec.label("submit-after-undeploy-began")
    if any(finish[j] is None and cancel[j] is None for j in idx_of):
        rec.label("job-still-queued-at-end")

    # ---- every report of run() -------------------------------------------------------------------
    for e in events:
        if e["ev"] == "raised" and not (e["seq"] > ub):
            raise failures[e["idx"]]  # run() raised although nothing was undeployed: crash in the code under test
        if e["ev"] != "returned":
            continue
        i = e["idx"]
        jd = case["jobs"][i]
        j = job_of.get(i)
        if j is None:
            raise Violation("C27:returned-without-submit", f"call {i} returned {e['out']!r},{e['code']} but no job carries its script\n{fmt()}")
        if cancel[j] is not None and cancel[j] < e["seq"]:
            continue  # cancelled by undeploy: what run() yields for it is not specified
        if finish[j] is None or finish[j] > e["seq"]:
            raise Violation(
                "C27:returned-before-finish",
                f"call {i} (job {j}) returned {e['out']!r},{e['code']} at seq {e['seq']} but the job left the queue at seq {finish[j]}\n{fmt()}",
            )
        if e["code"] != jd["code"]:
            raise Violation("C27:wrong-exit-code", f"call {i} (job {j}) returned code {e['code']}, the job exited with {jd['code']}\n{fmt()}")
        lines = [f"{nonces[i]}-a", f"{nonces[i]}-b"]
        if jd["svc"] == "tmpl":
            lines.insert(0, f"tmpl:{e.get('wd', '')}")
        if jd["out"] == "file":
            if e["out"] is not None:
                raise Violation("C27:output-returned-despite-redirection", f"call {i}: stdout was redirected to a file, run() returned {e['out']!r}")
            got = e.get("file")
        else:
            got = e["out"]
        exp = "\n".join(lines)
        if got is None or got.strip() != exp:
            kind = "C27:output-of-another-job" if got and any(x in got for k, x in enumerate(nonces) if k != i) else "C27:wrong-output"
            raise Violation(kind, f"call {i} (job {j}) output {got!r}, expected {exp!r}\n{fmt()}")

    # ---- undeploy must not fail -----------------------------------------------------------------
    if undeploy_exc:
        exc = undeploy_exc[0]
        if "does not wrap any inner location" in str(exc):
            import traceback

            raise Violation(
                "C27:undeploy:inner-location-unwrapped-twice",
                "undeploy() with jobs still scheduled raised instead of cancelling them (no scancel was run):\n"
                + "".join(traceback.format_exception(exc))[-1200:] + "\n" + fmt(),
            )
        raise exc  # any other crash in the code under test -> C27:crash:<Type>@<where>
    if ue is None:
        raise RuntimeError("harness: undeploy did not end\n" + fmt())

    # ---- undeploy cancels exactly the jobs still queued ---------------------------------------------
    for e in events:
        if e["ev"] in ("scancel", "cancel", "cancel-noop", "cancel-unknown") and not (ub < e["seq"] < ue):
            raise Violation("C27:cancel-outside-undeploy", f"{e['ev']} at seq {e['seq']}, undeploy spans {ub}..{ue}\n{fmt()}")
    for e in events:
        if e["ev"] == "cancel-unknown":
            raise Violation("C27:undeploy:cancels-unknown-id", f"scancel of {e['job']!r}\n{fmt()}")
        if e["ev"] in ("cancel", "cancel-noop"):
            j = e["job"]
            if j not in idx_of:
                raise Violation("C27:undeploy:cancels-unknown-id", f"scancel of {j!r}\n{fmt()}")
            if returned_at.get(j, last) < ub:
                raise Violation("C27:undeploy:cancels-returned-job", f"job {j} was reported finished at seq {returned_at[j]}, scancel'ed at {e['seq']}\n{fmt()}")
    for j in must:
        done = min(x for x in (finish[j], cancel[j], last + 1) if x is not None)
        if not done < ue:
            raise Violation("C27:undeploy:queued-job-not-cancelled", f"job {j} (call {idx_of[j]}) was queued at undeploy ({ub}..{ue}) and is still in the queue afterwards\n{fmt()}")

