"""Engine harness: context factory on the deterministic loop, token helpers, harness step kit.

Everything here wraps *instances* of repository classes (no repository hook). Import of this module
installs the synchronous sqlite adapter in this process.
"""
from __future__ import annotations

import asyncio
import logging
import os
import tempfile
from collections.abc import MutableMapping, MutableSequence
from typing import Any

from vf.engine import syncsql
from vf.engine.detloop import Chaos, settle, wrap_db

syncsql.install()

from streamflow.core.workflow import Port, Status, Token, Workflow  # noqa: E402
from streamflow.log_handler import logger  # noqa: E402
from streamflow.main import build_context  # noqa: E402
from streamflow.workflow.step import Transformer  # noqa: E402
from streamflow.workflow.token import ListToken, ObjectToken, TerminationToken  # noqa: E402

logger.setLevel(logging.CRITICAL)
logging.getLogger("streamflow").setLevel(logging.CRITICAL)


def make_context(chaos: Chaos | None = None, *, database: str = ":memory:", extra: dict | None = None, workdir: str | None = None):
    """Fresh StreamFlowContext (fresh DB, scheduler, data manager, deployment manager)."""
    config: dict[str, Any] = {
        "database": {"type": "default", "config": {"connection": database}},
        "path": os.path.join(workdir or tempfile.gettempdir(), "streamflow.yml"),
    }
    if extra:
        config.update(extra)
    ctx = build_context(config)
    if chaos is not None:
        wrap_db(ctx.database, chaos)
    return ctx


# ---------------------------------------------------------------------------------------------
# plain-value <-> token conversion (harness side; independent of StreamFlow's own helpers)


def to_token(value: Any, tag: str = "0") -> Token:
    """list -> ListToken (elements keep the parent's tag, as translator-built tokens do),
    dict -> ObjectToken, scalars -> Token."""
    if isinstance(value, list):
        return ListToken(value=[to_token(v, tag) for v in value], tag=tag)
    if isinstance(value, dict):
        return ObjectToken(value={k: to_token(v, tag) for k, v in value.items()}, tag=tag)
    return Token(value=value, tag=tag)


def from_token(token: Token) -> Any:
    if isinstance(token, ListToken):
        return [from_token(t) for t in token.value]
    if isinstance(token, ObjectToken):
        return {k: from_token(t) for k, t in token.value.items()}
    if isinstance(token.value, Token):
        return from_token(token.value)
    return token.value


def data_tokens(port: Port) -> list[Token]:
    return [t for t in port.token_list if not isinstance(t, TerminationToken)]


def terminations(port: Port) -> list[Token]:
    return [t for t in port.token_list if isinstance(t, TerminationToken)]


async def put_persisted(ctx, port: Port, token: Token) -> None:
    """What an upstream step does: persist, then put."""
    if not isinstance(token, TerminationToken):
        await token.save(ctx.database, port.persistent_id)
    port.put(token)


async def feed(ctx, events: list[tuple[Port, Token]]) -> None:
    """Put pre-built tokens one at a time in the given global order; between puts the loop is
    driven to quiescence, so the step under test observes exactly this arrival order."""
    for port, token in events:
        await put_persisted(ctx, port, token)
        await settle()


# ---------------------------------------------------------------------------------------------
# harness step kit


class FnTransformer(Transformer):
    """Pure function per tag group: ``fn(dict name->plain value) -> dict name->plain value``."""

    def __init__(self, name: str, workflow: Workflow, fn=None, chaos: Chaos | None = None, fail_tags=()):
        super().__init__(name, workflow)
        self.fn = fn or (lambda d: d)
        self.chaos = chaos
        self.fail_tags = set(fail_tags)  # failure injection: raise when processing these tags

    async def transform(self, inputs: MutableMapping[str, Token]) -> MutableMapping[str, Token | MutableSequence[Token]]:
        if self.chaos is not None:
            await self.chaos.point()
        tag = max((t.tag for t in inputs.values()), key=lambda s: len(s.split(".")))
        if tag in self.fail_tags:
            raise RuntimeError(f"vf: injected transformer failure at {self.name} tag {tag}")
        out = self.fn({k: from_token(v) for k, v in inputs.items()})
        return {k: to_token(v, tag) for k, v in out.items()}


class ShuffleTransformer(Transformer):
    """Element-wise identity that releases its outputs in a drawn order: models the jobs of a
    scattered step finishing in any order. It buffers ``window`` tokens, then emits them permuted
    by ``perm`` (indices taken modulo the buffer length, a stable sort by drawn rank)."""

    def __init__(self, name: str, workflow: Workflow, ranks: list[int] | None = None, fn=None, window: int = 0):
        super().__init__(name, workflow)
        self.ranks = list(ranks or [])
        self.fn = fn
        self.window = window  # 0 = buffer everything until upstream terminates
        self.buffer: list[Token] = []
        self.emitted = 0

    async def _flush(self, out_port) -> None:
        from streamflow.core.utils import get_entity_ids

        n = len(self.buffer)
        order = sorted(range(n), key=lambda i: (self.ranks[(self.emitted + i) % len(self.ranks)] if self.ranks else 0, i))
        for i in order:
            t = self.buffer[i]
            new = t.update(t.value) if self.fn is None else to_token(self.fn(from_token(t)), t.tag)
            out_port.put(await self._persist_token(token=new, port=out_port, input_token_ids=get_entity_ids([t])))
        self.emitted += n
        self.buffer = []

    async def transform(self, inputs):  # pragma: no cover - run() is overridden
        raise NotImplementedError

    async def run(self) -> None:
        try:
            port_name = next(iter(self.input_ports))
            in_port = self.get_input_port(port_name)
            out_port = self.get_output_port(next(iter(self.output_ports)))
            consumer = os.path.join(self.name, port_name)
            status = Status.COMPLETED
            while True:
                token = await in_port.get(consumer)
                if isinstance(token, TerminationToken):
                    status = token.value
                    break
                self.buffer.append(token)
                if self.window and len(self.buffer) >= self.window:
                    await self._flush(out_port)
            await self._flush(out_port)
            await self.terminate(self._get_status(status))
        except asyncio.CancelledError:
            await self.terminate(Status.CANCELLED)
        except Exception:  # noqa: BLE001
            await self.terminate(Status.FAILED)


# ---------------------------------------------------------------------------------------------
# conditional steps (same protocol as CWLConditionalStep / CWLLoopConditionalStep, without JS)

from streamflow.core.utils import get_entity_ids, get_tag  # noqa: E402
from streamflow.workflow.step import ConditionalStep  # noqa: E402
from streamflow.workflow.token import IterationTerminationToken  # noqa: E402


class _SkipPorts:
    def add_skip_port(self, name: str, port: Port) -> None:
        if port.name not in self.workflow.ports:
            self.workflow.ports[port.name] = port
        self.skip_ports[name] = port.name

    def get_skip_ports(self):
        return {k: self.workflow.ports[v] for k, v in self.skip_ports.items()}


class PredConditional(_SkipPorts, ConditionalStep):
    """forward on true; on false put a ``None`` token with the same tag on every skip port"""

    def __init__(self, name: str, workflow: Workflow, pred=None, chaos: Chaos | None = None, fail_tags=()):
        super().__init__(name, workflow)
        self.pred = pred
        self.chaos = chaos
        self.skip_ports: dict[str, str] = {}
        self.fail_tags = set(fail_tags)  # failure injection: raise when evaluating these tags

    async def _eval(self, inputs):
        if self.chaos is not None:
            await self.chaos.point()
        vals = {k: from_token(t) for k, t in inputs.items()}
        if get_tag(inputs.values()) in self.fail_tags:
            raise RuntimeError(f"vf: injected conditional failure at {self.name}")
        return bool(self.pred(vals))

    async def _on_true(self, inputs):
        for port_name, port in self.get_output_ports().items():
            port.put(
                await self._persist_token(
                    token=inputs[port_name].update(inputs[port_name].value),
                    port=port,
                    input_token_ids=get_entity_ids(inputs.values()),
                )
            )

    async def _on_false(self, inputs):
        for port in self.get_skip_ports().values():
            port.put(
                await self._persist_token(
                    token=Token(value=None, tag=get_tag(inputs.values())),
                    port=port,
                    input_token_ids=get_entity_ids(inputs.values()),
                )
            )


class LoopConditional(PredConditional):
    """on false put an (unpersisted) IterationTerminationToken on the skip ports, like
    CWLLoopConditionalStep"""

    async def _on_false(self, inputs):
        for port in self.get_skip_ports().values():
            port.put(IterationTerminationToken(tag=get_tag(inputs.values())))


# ---------------------------------------------------------------------------------------------
# job pipeline kit: local deployment + ScheduleStep + ExecuteStep with a pure Python command

from streamflow.core.config import BindingConfig  # noqa: E402
from streamflow.core.deployment import LocalTarget  # noqa: E402
from streamflow.core.workflow import Command, CommandOutput, Job  # noqa: E402
from streamflow.workflow.step import (  # noqa: E402
    DefaultCommandOutputProcessor,
    DeployStep,
    ExecuteStep,
    ScheduleStep,
)


class ExecLog:
    """harness-side record of what jobs did (independent of the database)"""

    def __init__(self) -> None:
        self.started: list[str] = []
        self.finished: list[str] = []
        self.running: set[str] = set()
        self.max_concurrent = 0


class PyCommand(Command):
    """Pure function of the job inputs; duration = ``chaos.draw()`` loop turns; failure injection by
    a plan ``{job_name: n_failures}`` counted in memory (``mode`` 'status' -> FAILED CommandOutput,
    'raise' -> exception)."""

    def __init__(self, step, fn, chaos: Chaos | None = None, log: ExecLog | None = None, fail_plan=None, mode="status", durations=None):
        super().__init__(step)
        self.fn = fn
        self.chaos = chaos
        self.log = log or ExecLog()
        self.fail_plan = dict(fail_plan or {})
        self.mode = mode
        # per-job durations in loop turns, consumed cyclically in job-start order (log-wide counter):
        # long enough for jobs of one step to overlap and to finish in any order
        self.durations = list(durations or [])

    async def execute(self, job: Job) -> CommandOutput:
        self.log.started.append(job.name)
        self.log.running.add(job.name)
        self.log.max_concurrent = max(self.log.max_concurrent, len(self.log.running))
        try:
            if self.durations:
                for _ in range(self.durations[(len(self.log.started) - 1) % len(self.durations)]):
                    await asyncio.sleep(0)
            elif self.chaos is not None:
                for _ in range(self.chaos.draw() * 2):
                    await asyncio.sleep(0)
            if self.fail_plan.get(job.name, 0) > 0:
                self.fail_plan[job.name] -= 1
                if self.mode == "raise":
                    raise RuntimeError(f"vf: injected failure of {job.name}")
                return CommandOutput("vf: injected failure", Status.FAILED)
            value = self.fn({k: from_token(t) for k, t in job.inputs.items()})
            self.log.finished.append(job.name)
            return CommandOutput(value, Status.COMPLETED)
        finally:
            self.log.running.discard(job.name)


def deploy_step_for(wf: Workflow, deployment_config) -> DeployStep:
    name = f"__deploy__/{deployment_config.name}"
    if name in wf.steps:
        return wf.steps[name]
    return wf.create_step(cls=DeployStep, name=name, deployment_config=deployment_config)


def local_deploy_step(wf: Workflow, workdir: str) -> DeployStep:
    return deploy_step_for(wf, LocalTarget(workdir=workdir).deployment)


def exec_pipeline(wf: Workflow, name: str, in_ports: dict[str, Port], fn, workdir: str | None, chaos=None, log=None, fail_plan=None,
                  mode="status", targets=None, sched_kwargs=None, durations=None) -> tuple[Port, ExecuteStep, ScheduleStep]:
    """DeployStep(s) -> ScheduleStep -> ExecuteStep(PyCommand(fn)); returns the output port.
    ``targets`` (list of Target) defaults to the local target with ``workdir``."""
    targets = targets or [LocalTarget(workdir=workdir)]
    binding = BindingConfig(targets=targets)
    sched = wf.create_step(
        cls=ScheduleStep,
        name=name + "/__schedule__",
        job_prefix=name,
        connector_ports={t.deployment.name: deploy_step_for(wf, t.deployment).get_output_port() for t in targets},
        binding_config=binding,
        **(sched_kwargs or {}),
    )
    ex = wf.create_step(cls=ExecuteStep, name=name, job_port=sched.get_output_port())
    for k, p in in_ports.items():
        sched.add_input_port(k, p)
        ex.add_input_port(k, p)
    out = wf.create_port()
    ex.add_output_port("out", out)
    ex.output_processors["out"] = DefaultCommandOutputProcessor(name="out", workflow=wf)
    ex.command = PyCommand(ex, fn, chaos=chaos, log=log, fail_plan=fail_plan, mode=mode, durations=durations)
    return out, ex, sched
