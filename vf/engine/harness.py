"""Engine harness: context factory on the deterministic loop, token helpers, harness step kit.

Everything here wraps *instances* of repository classes (no repository hook). Import of this module
installs the synchronous sqlite adapter in this process.
"""
from __future__ import annotations

import asyncio
import logging
import os
import tempfile
from collections.abc import MutableMapping, MutableSequence
from typing import Any

from vf.engine import syncsql
from vf.engine.detloop import Chaos, settle, wrap_db

syncsql.install()

from streamflow.core.workflow import Port, Status, Token, Workflow  # noqa: E402
from streamflow.log_handler import logger  # noqa: E402
from streamflow.main import build_context  # noqa: E402
from streamflow.workflow.step import Transformer  # noqa: E402
from streamflow.workflow.token import ListToken, ObjectToken, TerminationToken  # noqa: E402

logger.setLevel(logging.CRITICAL)
logging.getLogger("streamflow").setLevel(logging.CRITICAL)


def make_context(chaos: Chaos | None = None, *, database: str = ":memory:", extra: dict | None = None, workdir: str | None = None):
    """Fresh StreamFlowContext (fresh DB, scheduler, data manager, deployment manager)."""
    config: dict[str, Any] = {
        "database": {"type": "default", "config": {"connection": database}},
        "path": os.path.join(workdir or tempfile.gettempdir(), "streamflow.yml"),
    }
    if extra:
        config.update(extra)
    ctx = build_context(config)
    if chaos is not None:
        wrap_db(ctx.database, chaos)
    return ctx


# ---------------------------------------------------------------------------------------------
# plain-value <-> token conversion (harness side; independent of StreamFlow's own helpers)


def to_token(value: Any, tag: str = "0") -> Token:
    """list -> ListToken (elements keep the parent's tag, as translator-built tokens do),
    dict -> ObjectToken, scalars -> Token."""
    if isinstance(value, list):
        return ListToken(value=[to_token(v, tag) for v in value], tag=tag)
    if isinstance(value, dict):
        return ObjectToken(value={k: to_token(v, tag) for k, v in value.items()}, tag=tag)
    return Token(value=value, tag=tag)


def from_token(token: Token) -> Any:
    if isinstance(token, ListToken):
        return [from_token(t) for t in token.value]
    if isinstance(token, ObjectToken):
        return {k: from_token(t) for k, t in token.value.items()}
    if isinstance(token.value, Token):
        return from_token(token.value)
    return token.value


def data_tokens(port: Port) -> list[Token]:
    return [t for t in port.token_list if not isinstance(t, TerminationToken)]


def terminations(port: Port) -> list[Token]:
    return [t for t in port.token_list if isinstance(t, TerminationToken)]


async def put_persisted(ctx, port: Port, token: Token) -> None:
    """What an upstream step does: persist, then put."""
    if not isinstance(token, TerminationToken):
        await token.save(ctx.database, port.persistent_id)
    port.put(token)


async def feed(ctx, events: list[tuple[Port, Token]]) -> None:
    """Put pre-built tokens one at a time in the given global order; between puts the loop is
    driven to quiescence, so the step under test observes exactly this arrival order."""
    for port, token in events:
        await put_persisted(ctx, port, token)
        await settle()


# ---------------------------------------------------------------------------------------------
# harness step kit


class FnTransformer(Transformer):
    """Pure function per tag group: ``fn(dict name->plain value) -> dict name->plain value``."""

    def __init__(self, name: str, workflow: Workflow, fn=None, chaos: Chaos | None = None):
        super().__init__(name, workflow)
        self.fn = fn or (lambda d: d)
        self.chaos = chaos

    async def transform(self, inputs: MutableMapping[str, Token]) -> MutableMapping[str, Token | MutableSequence[Token]]:
        if self.chaos is not None:
            await self.chaos.point()
        tag = max((t.tag for t in inputs.values()), key=lambda s: len(s.split(".")))
        out = self.fn({k: from_token(v) for k, v in inputs.items()})
        return {k: to_token(v, tag) for k, v in out.items()}


class ShuffleTransformer(Transformer):
    """Element-wise identity that releases its outputs in a drawn order: models the jobs of a
    scattered step finishing in any order. It buffers ``window`` tokens, then emits them permuted
    by ``perm`` (indices taken modulo the buffer length, a stable sort by drawn rank)."""

    def __init__(self, name: str, workflow: Workflow, ranks: list[int] | None = None, fn=None, window: int = 0):
        super().__init__(name, workflow)
        self.ranks = list(ranks or [])
        self.fn = fn
        self.window = window  # 0 = buffer everything until upstream terminates
        self.buffer: list[Token] = []
        self.emitted = 0

    async def _flush(self, out_port) -> None:
        from streamflow.core.utils import get_entity_ids

        n = len(self.buffer)
        order = sorted(range(n), key=lambda i: (self.ranks[(self.emitted + i) % len(self.ranks)] if self.ranks else 0, i))
        for i in order:
            t = self.buffer[i]
            new = t.update(t.value) if self.fn is None else to_token(self.fn(from_token(t)), t.tag)
            out_port.put(await self._persist_token(token=new, port=out_port, input_token_ids=get_entity_ids([t])))
        self.emitted += n
        self.buffer = []

    async def transform(self, inputs):  # pragma: no cover - run() is overridden
        raise NotImplementedError

    async def run(self) -> None:
        try:
            port_name = next(iter(self.input_ports))
            in_port = self.get_input_port(port_name)
            out_port = self.get_output_port(next(iter(self.output_ports)))
            consumer = os.path.join(self.name, port_name)
            status = Status.COMPLETED
            while True:
                token = await in_port.get(consumer)
                if isinstance(token, TerminationToken):
                    status = token.value
                    break
                self.buffer.append(token)
                if self.window and len(self.buffer) >= self.window:
                    await self._flush(out_port)
            await self._flush(out_port)
            await self.terminate(self._get_status(status))
        except asyncio.CancelledError:
            await self.terminate(Status.CANCELLED)
        except Exception:  # noqa: BLE001
            await self.terminate(Status.FAILED)
