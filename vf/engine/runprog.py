"""Run one generated program on the deterministic loop and collect everything the oracles need."""
from __future__ import annotations

import shutil
import tempfile
from typing import Any

from vf.core import Violation
from vf.engine import progs
from vf.engine.detloop import Chaos, Deadlock, pending_tasks, settle


class RunResult:
    def __init__(self) -> None:
        self.blocks: list[dict] = []
        self.streams: list = []
        self.ref: dict[int, dict[str, Any]] = {}
        self.outcome = ""  # returned | raised | deadlock
        self.exception: BaseException | None = None
        self.result: dict | None = None
        self.port_tokens: dict[int, list] = {}  # stream -> token_list (objects)
        self.got: dict[int, dict[str, Any]] = {}  # stream -> {tag: plain value} from data tokens
        self.dups: dict[int, list[str]] = {}
        self.statuses: dict[str, str] = {}
        self.terminated: dict[str, bool] = {}
        self.out_port_terms: dict[str, list[int]] = {}
        self.pending = 0
        self.chaos_points = 0
        self.outputs: list[int] = []
        self.log = None
        self.built = None
        self.wf = None
        self.tables: dict[str, list] = {}


def outputs_of(streams) -> list[int]:
    return [i for i, s in enumerate(streams) if not s.consumed]


async def run_program(prog: list[dict], schedule: list[int], *, fail_plan=None, fail_mode="status", faults=None, durations=None, dangling: list[int] | None = None,
                      read_tables: bool = False, extra_context: dict | None = None) -> RunResult:
    import vf.engine.harness as hz
    from streamflow.core.workflow import Workflow
    from streamflow.workflow.executor import StreamFlowExecutor
    from streamflow.workflow.token import TerminationToken
    from vf.engine.build import build, inject_sources

    r = RunResult()
    r.blocks, r.streams = progs.analyse(prog)
    r.ref = progs.interpret(r.blocks)
    chaos = Chaos(schedule)
    workdir = tempfile.mkdtemp(prefix="vf-prog-") if any(b["op"] == "exec" for b in r.blocks) else None
    ctx = hz.make_context(chaos, extra=extra_context, workdir=workdir)
    try:
        wf = Workflow(context=ctx, name="w", config={})
        b = build(wf, r.blocks, chaos, workdir=workdir, fail_plan=fail_plan, fail_mode=fail_mode, faults=faults, durations=durations)
        r.built, r.wf, r.log = b, wf, b.log
        r.outputs = [i for i in outputs_of(r.streams) if i not in (dangling or [])]
        for i in r.outputs:
            wf.output_ports[f"o{i}"] = b.ports[i].name
        await wf.save(ctx.database)
        await inject_sources(ctx, b)
        try:
            r.result = await StreamFlowExecutor(wf).run()
            r.outcome = "returned"
        except Deadlock:
            raise
        except Exception as e:  # noqa: BLE001
            r.outcome = "raised"
            r.exception = e
        await settle()
        r.pending = len(pending_tasks())
        r.chaos_points = chaos.n
        for i in range(len(r.streams)):
            toks = list(b.ports[i].token_list)
            r.port_tokens[i] = toks
            got: dict[str, Any] = {}
            dups = []
            for t in toks:
                if isinstance(t, TerminationToken):
                    continue
                if t.tag in got:
                    dups.append(t.tag)
                got[t.tag] = hz.from_token(t)
            r.got[i] = got
            r.dups[i] = dups
        for s in wf.steps.values():
            r.statuses[s.name] = s.status.name
            r.terminated[s.name] = bool(s.terminated)
            for pn, port in s.get_output_ports().items():
                r.out_port_terms[f"{s.name}:{pn}"] = sum(isinstance(t, TerminationToken) for t in port.token_list)
        if read_tables:
            raw = ctx.database.connection._connection._c
            for tbl in ("token", "provenance", "port", "step", "dependency"):
                cur = raw.execute(f"SELECT * FROM {tbl}")  # noqa: S608
                cols = [d[0] for d in cur.description]
                r.tables[tbl] = [dict(zip(cols, row, strict=True)) for row in cur.fetchall()]
        return r
    finally:
        await ctx.close()
        if workdir:
            shutil.rmtree(workdir, ignore_errors=True)


def compare_with_reference(r: RunResult, pid: str) -> None:
    """Every stream (in block order) must carry exactly the reference's {tag: value}; the first
    mismatch is attributed to the block that produced the stream."""
    from streamflow.core.workflow import Status
    from streamflow.workflow.token import TerminationToken

    producer = {b["out"]: b for b in r.blocks}
    for i in range(len(r.streams)):
        b = producer[i]
        if r.dups[i]:
            raise Violation(f"{pid}:{b['op']}:duplicate-tag", f"stream {i} carries tags {r.dups[i]} more than once; blocks={r.blocks}")
        if r.got[i] != r.ref[i]:
            missing = sorted(set(r.ref[i]) - set(r.got[i]))
            extra = sorted(set(r.got[i]) - set(r.ref[i]))
            detail = "missing" if missing else "extra" if extra else "value"
            kind = f"{pid}:{b['op']}:{detail}"
            if b["op"] == "loop" and missing:
                # root-cause bucket: the loop's input port terminated with a non-COMPLETED status although it carried data
                src_toks = r.port_tokens[b["src"]]
                terms = [t for t in src_toks if isinstance(t, TerminationToken)]
                if terms and terms[-1].value == Status.SKIPPED and len(src_toks) > len(terms):
                    kind = f"{pid}:loop:aborted-by-skipped-input-status"
            raise Violation(kind, f"stream {i} (block {b}): got {r.got[i]}, expected {r.ref[i]}; missing={missing} extra={extra}; blocks={r.blocks}")


def classify(r: RunResult, rec) -> None:
    ops = {b["op"] for b in r.blocks}
    for op in sorted(ops - {"source"}):
        rec.label(f"has-{op}")
    rec.label(f"depth={max(len(s.stack) for s in r.streams)}")
    its = progs.loop_iterations(r.blocks, r.ref)
    if its:
        rec.label("loop-n=0" if min(its) == 0 else "loop-n>0")
        if max(its) >= 10:
            rec.label("loop-n>=10")
    for b in r.blocks:
        if b["op"] == "cross":
            rec.label(f"cross-{b['mode']}")
    if r.log is not None and r.log.max_concurrent >= 2:
        rec.label("jobs-overlap")
    if r.log is not None and r.log.started and r.log.finished and [j for j in r.log.started if j in r.log.finished] != r.log.finished:
        rec.label("jobs-finish-out-of-order")
    if any(len(v) >= 10 for b in r.blocks if b["op"] == "scatter" for v in r.ref[b["src"]].values()):
        rec.label("scatter-len>=10")
    if any(len(v) == 0 for b in r.blocks if b["op"] == "scatter" for v in r.ref[b["src"]].values()):
        rec.label("scatter-len=0")
