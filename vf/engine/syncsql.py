"""Synchronous, in-event-loop replacement for the subset of ``aiosqlite`` that
``streamflow.persistence.sqlite`` uses. The SQL, schema, caching and all of ``SqliteDatabase`` stay
the repository's code; only the worker thread disappears, so that database awaits complete
deterministically. ``install()`` patches ``aiosqlite.connect`` in *this process only*.
"""
from __future__ import annotations

import sqlite3


class _Cursor:
    def __init__(self, conn, cur=None):
        self._conn = conn
        self._cur = cur or conn.cursor()

    async def execute(self, sql, params=()):
        self._cur.execute(sql, params)
        return self

    async def executemany(self, sql, seq):
        self._cur.executemany(sql, list(seq))
        return self

    async def executescript(self, script):
        self._cur.executescript(script)
        return self

    async def fetchone(self):
        return self._cur.fetchone()

    async def fetchall(self):
        return self._cur.fetchall()

    async def fetchmany(self, size=None):
        return self._cur.fetchmany(size) if size is not None else self._cur.fetchmany()

    @property
    def lastrowid(self):
        return self._cur.lastrowid

    @property
    def rowcount(self):
        return self._cur.rowcount

    @property
    def description(self):
        return self._cur.description

    async def close(self):
        self._cur.close()

    def __aiter__(self):
        return self

    async def __anext__(self):
        r = self._cur.fetchone()
        if r is None:
            raise StopAsyncIteration
        return r

    async def __aenter__(self):
        return self

    async def __aexit__(self, *a):
        self._cur.close()


class _Result:
    """Awaitable + async context manager, like aiosqlite's ``Result``."""

    def __init__(self, fn):
        self._fn = fn
        self._obj = None

    def __await__(self):
        async def run():
            return self._fn()

        return run().__await__()

    async def __aenter__(self):
        self._obj = self._fn()
        return self._obj

    async def __aexit__(self, *a):
        if self._obj is not None:
            self._obj._cur.close()


class Connection:
    def __init__(self, database, **kw):
        self._c = sqlite3.connect(database, isolation_level=kw.get("isolation_level", ""))

    @property
    def row_factory(self):
        return self._c.row_factory

    @row_factory.setter
    def row_factory(self, f):
        self._c.row_factory = sqlite3.Row if f is not None else None

    def cursor(self):
        return _Result(lambda: _Cursor(self._c))

    def execute(self, sql, params=()):
        def fn():
            cur = self._c.cursor()
            cur.execute(sql, params)
            return _Cursor(self._c, cur)

        return _Result(fn)

    def executemany(self, sql, seq):
        def fn():
            cur = self._c.cursor()
            cur.executemany(sql, list(seq))
            return _Cursor(self._c, cur)

        return _Result(fn)

    def executescript(self, script):
        def fn():
            cur = self._c.cursor()
            cur.executescript(script)
            return _Cursor(self._c, cur)

        return _Result(fn)

    async def commit(self):
        self._c.commit()

    async def rollback(self):
        self._c.rollback()

    async def close(self):
        self._c.close()


class _Connect:
    def __init__(self, database, **kw):
        self.a = (database, kw)

    def __await__(self):
        async def run():
            return Connection(self.a[0], **self.a[1])

        return run().__await__()


def connect(database, timeout=None, **kw):
    return _Connect(database, **kw)


Row = sqlite3.Row
_installed = False


def install():
    global _installed
    if _installed:
        return
    import aiosqlite

    aiosqlite._vf_real_connect = aiosqlite.connect
    aiosqlite.connect = connect
    aiosqlite.Row = Row
    _installed = True


def uninstall():
    global _installed
    import aiosqlite

    if _installed:
        aiosqlite.connect = aiosqlite._vf_real_connect
        _installed = False
