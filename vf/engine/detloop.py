"""Deterministic event loop with virtual time and an exact quiescence / deadlock detector.

* ``run(coro)`` runs ``coro`` as the main task on a fresh :class:`DetLoop`; raises :class:`Deadlock`
  if the loop becomes quiescent (no ready callback, no live timer, no external operation in flight,
  no file descriptor besides the self-pipe) while the main task is unfinished.
* Virtual time: when nothing is ready and only timers remain, the clock jumps to the next timer, so
  ``asyncio.sleep(5)`` costs nothing and is deterministic.
* ``await settle()`` returns at the next quiescent point (drivers use it as the exact "everything
  I fed has been consumed" signal).
* :class:`Chaos` implements the sound delay model (DESIGN R1b): ``await chaos.point()`` yields to the
  loop ``k`` times, ``k`` consumed cyclically from the case's schedule.
"""
from __future__ import annotations

import asyncio
import inspect
from collections.abc import Iterable, MutableSet


class Deadlock(Exception):
    _vf_deadlock = True


class OrderedSet(MutableSet):
    """Insertion-ordered set. ``asyncio.wait`` returns plain sets of tasks, whose iteration order
    depends on object addresses: code that loops over ``finished`` handles tokens that arrived in the
    same loop turn in an arbitrary order. On the deterministic loop the two sets are ordered by task
    creation (and ``done`` is rotated by the case's schedule), so that this choice too is a function
    of the case - every such order is one a real run can exhibit."""

    def __init__(self, it=()):
        self._d = dict.fromkeys(it)

    def __contains__(self, x):
        return x in self._d

    def __iter__(self):
        return iter(list(self._d))

    def __len__(self):
        return len(self._d)

    def add(self, x):
        self._d[x] = None

    def discard(self, x):
        self._d.pop(x, None)

    def __repr__(self):
        return f"OrderedSet({list(self._d)!r})"


_real_wait = asyncio.wait


async def _ordered_wait(fs, *, timeout=None, return_when=asyncio.ALL_COMPLETED):
    fs = list(fs)
    done, pending = await _real_wait(fs, timeout=timeout, return_when=return_when)
    loop = asyncio.get_running_loop()
    if not isinstance(loop, DetLoop):
        return done, pending
    key = lambda t: getattr(t, "_vf_seq", 0)  # noqa: E731
    d = sorted(done, key=key)
    if len(d) > 1 and loop.wait_chaos is not None:
        k = loop.wait_chaos.draw() % len(d)
        d = d[k:] + d[:k]
    return OrderedSet(d), OrderedSet(sorted(pending, key=key))


asyncio.wait = _ordered_wait
asyncio.tasks.wait = _ordered_wait


class DetLoop(asyncio.SelectorEventLoop):
    def __init__(self) -> None:
        super().__init__()
        self._vtime = 0.0
        self.inflight = 0
        self.main_task: asyncio.Task | None = None
        self.quiescent_waiters: list[asyncio.Future] = []
        self.detect = True
        self.turns = 0
        self.max_turns = 20_000_000
        self.wait_chaos: Chaos | None = None  # rotates the order of simultaneously finished tasks
        self._task_seq = 0
        self.set_task_factory(self._factory)

    def _factory(self, loop, coro, **kw):
        task = asyncio.Task(coro, loop=loop, **kw)
        self._task_seq += 1
        task._vf_seq = self._task_seq
        return task

    def time(self) -> float:
        return self._vtime

    def _externals(self) -> bool:
        return self.inflight > 0 or len(self._selector.get_map()) > 1

    def run_in_executor(self, executor, func, *args):
        self.inflight += 1
        fut = super().run_in_executor(executor, func, *args)

        def done(_):
            self.inflight -= 1

        fut.add_done_callback(done)
        return fut

    def _run_once(self) -> None:
        self.turns += 1
        if not self._ready:
            live = [h for h in self._scheduled if not h._cancelled]
            if not live and not self._externals():
                if self.quiescent_waiters:
                    ws, self.quiescent_waiters = self.quiescent_waiters, []
                    for f in ws:
                        if not f.done():
                            f.set_result(None)
                elif self.detect and self.main_task is not None and not self.main_task.done():
                    raise Deadlock(self._describe())
            elif live:
                if self._externals():
                    events = self._selector.select(0.002)
                    self._process_events(events)
                if not self._ready:
                    self._vtime = max(self._vtime, min(h._when for h in live))
        if self.turns > self.max_turns:
            raise RuntimeError("DetLoop: turn budget exceeded (livelock in harness or code)")
        super()._run_once()

    def _describe(self) -> str:
        lines = ["quiescent loop with unfinished main task; pending tasks:"]
        for t in sorted(asyncio.all_tasks(self), key=lambda t: t.get_name()):
            if t.done():
                continue
            stack = t.get_stack(limit=3)
            where = " <- ".join(f"{f.f_code.co_filename.rsplit('/', 1)[-1]}:{f.f_lineno}:{f.f_code.co_name}" for f in stack)
            lines.append(f"  {t.get_name()}: {where}")
            if len(lines) > 25:
                lines.append("  ...")
                break
        return "\n".join(lines)

    def settle(self) -> asyncio.Future:
        f = self.create_future()
        self.quiescent_waiters.append(f)
        return f


def settle() -> asyncio.Future:
    """Awaitable resolved at the next quiescent point of the running DetLoop."""
    return asyncio.get_running_loop().settle()


def pending_tasks() -> list[asyncio.Task]:
    cur = asyncio.current_task()
    return [t for t in asyncio.all_tasks() if t is not cur and not t.done()]


def run(coro):
    loop = DetLoop()
    asyncio.set_event_loop(loop)
    try:
        loop.main_task = loop.create_task(coro, name="vf-main")
        return loop.run_until_complete(loop.main_task)
    finally:
        try:
            loop.detect = False
            tasks = [t for t in asyncio.all_tasks(loop) if not t.done()]
            for t in tasks:
                t.cancel()
            if tasks:
                try:
                    loop.run_until_complete(asyncio.wait(tasks, timeout=5))
                except BaseException:  # noqa: BLE001
                    pass
            for t in tasks:
                if t.done() and not t.cancelled():
                    t.exception()  # mark retrieved
            if loop.main_task.done() and not loop.main_task.cancelled():
                loop.main_task.exception()
            loop.run_until_complete(loop.shutdown_asyncgens())
        finally:
            asyncio.set_event_loop(None)
            loop.close()


class Chaos:
    """Schedule-driven delays at external-wait points."""

    def __init__(self, schedule: Iterable[int] = ()):
        self.s = list(schedule)
        self.i = 0
        self.n = 0
        try:
            loop = asyncio.get_running_loop()
            if isinstance(loop, DetLoop) and self.s:
                loop.wait_chaos = Chaos.__new__(Chaos)
                loop.wait_chaos.s, loop.wait_chaos.i, loop.wait_chaos.n = list(reversed(self.s)), 0, 0
        except RuntimeError:
            pass

    async def point(self) -> None:
        self.n += 1
        if not self.s:
            return
        k = self.s[self.i % len(self.s)]
        self.i += 1
        for _ in range(k):
            await asyncio.sleep(0)

    def draw(self) -> int:
        """Next delay value without yielding (for commands with a drawn duration)."""
        self.n += 1
        if not self.s:
            return 0
        k = self.s[self.i % len(self.s)]
        self.i += 1
        return k


def wrap_async_methods(obj, names: Iterable[str], chaos: Chaos) -> None:
    """Wrap coroutine methods of *this instance* so the caller yields before and after the call."""
    for name in names:
        fn = getattr(obj, name)
        if not inspect.iscoroutinefunction(fn):
            continue

        def mk(fn):
            async def w(*a, **k):
                await chaos.point()
                r = await fn(*a, **k)
                await chaos.point()
                return r

            w.__name__ = getattr(fn, "__name__", "wrapped")
            return w

        setattr(obj, name, mk(fn))


def wrap_db(db, chaos: Chaos) -> None:
    wrap_async_methods(db, [n for n in dir(db) if n.startswith(("add_", "get_", "update_"))], chaos)
