"""Workflow *programs*: generator (Hypothesis strategy over JSON descriptions), builder (a real
StreamFlow workflow graph made of repository step classes plus the harness step kit) and an
independent reference interpreter over plain values.

A program is a list of blocks; each block consumes earlier *streams* (by index) and defines new ones.
A stream is described statically by ``(stack, nest)``: ``stack`` = ids of the scatters it descends
from (tag depth), ``nest`` = list-nesting level of its values (0 = scalar int/None).
The reference interpreter evaluates a stream to ``dict[tag -> plain value]`` and shares no code with
StreamFlow.

Blocks (JSON): see ``block_strategy``; summary
  source   {"op":"source","value":v}                     -> stream(stack=[], nest=nesting(v))
  map      {"op":"map","src":i,"fn":"h"|"id"|"inc"}      -> same stack; nest 0 for h/inc, same for id
  zip      {"op":"zip","srcs":[i,j(,k)]}                 -> DotProductCombinator + combine; stack = longest
  scatter  {"op":"scatter","src":i}                      -> stack+[id], nest-1
  gather   {"op":"gather","src":i}                       -> stack[:-1], nest+1  (size port of the popped scatter)
  cond     {"op":"cond","src":i,"mod":m}                 -> conditional with skip port; value or None
  loop     {"op":"loop","src":i,"m":m,"method":"last"|"all"} -> real loop subgraph; nest 1 (last) / 2 (all)
  shuffle  {"op":"shuffle","src":i,"ranks":[..],"window":w} -> same stream; tokens re-emitted in a drawn order (jobs finishing in any order)
  join     {"op":"join","srcs":[i,j]}                    -> multi-input transformer fed directly by two streams of the same stack (same tag sets)
  cross    {"op":"cross","srcs":[i,j],"mode":"flat"|"nested"} -> scatter x scatter + CartesianProductCombinator + gather(s), wired as the CWL translator does
  exec     {"op":"exec","src":i}                         -> schedule + execute pipeline (added by exec-enabled strategies)
"""
from __future__ import annotations

from typing import Any

from hypothesis import strategies as st

# ---------------------------------------------------------------------------------------------
# pure functions shared by builder (inside harness steps) and reference interpreter.
# They are *data* semantics of the harness' own steps, not StreamFlow code.


def H(v: Any) -> int:
    """order-sensitive hash of a plain value to a small int"""
    if v is None:
        return -7
    if isinstance(v, bool):
        return 3 if v else 2
    if isinstance(v, int):
        return v
    if isinstance(v, list):
        acc = 11
        for i, x in enumerate(v):
            acc = (acc * 31 + (i + 1) * H(x)) % 1_000_003
        return acc
    raise TypeError(type(v))


def fn_apply(fn: str, v: Any) -> Any:
    if fn == "id":
        return v
    if fn == "h":
        return H(v)
    if fn == "inc":
        return (H(v) + 1) % 1_000_003
    raise ValueError(fn)


def zip_apply(vals: list[Any]) -> int:
    acc = 5
    for x in vals:
        acc = (acc * 37 + H(x)) % 1_000_003
    return acc


def cond_pred(v: Any, mod: int) -> bool:
    return H(v) % mod != 0


def cond_body(v: Any) -> int:
    return (H(v) * 2 + 1) % 1_000_003


def loop_bound(v: Any, m: int) -> int:
    return abs(H(v)) % m


def loop_init(v: Any, m: int) -> list:
    """loop state: [accumulator, iteration counter, bound]"""
    return [H(v) % 1000, 0, loop_bound(v, m)]


def loop_when(state: list) -> bool:
    return state[1] < state[2]


def loop_body(state: list) -> list:
    return [(state[0] * 3 + state[1]) % 1_000_003, state[1] + 1, state[2]]


def exec_fn(v: Any) -> int:
    return (H(v) * 7 + 3) % 1_000_003


# ---------------------------------------------------------------------------------------------
# static typing of streams


def nesting(v: Any) -> int:
    if isinstance(v, list):
        return 1 + max((nesting(x) for x in v), default=0)
    return 0


class StreamInfo:
    __slots__ = ("stack", "nest", "consumed")

    def __init__(self, stack: tuple, nest: int):
        self.stack = stack
        self.nest = nest
        self.consumed = False


def analyse(blocks: list[dict]) -> tuple[list[dict], list[StreamInfo]]:
    """Resolve state-relative indices and drop blocks that are not applicable (construction, not
    rejection: an inapplicable block is skipped, the rest of the program stays valid).
    Returns (resolved blocks, stream infos)."""
    streams: list[StreamInfo] = []
    out: list[dict] = []
    nscatter = 0

    def pick(i: int) -> int:
        # indices are absolute (modulo, so that hand-edited / shrunk cases stay valid)
        return i % len(streams)
    for b in blocks:
        op = b["op"]
        if op == "source":
            v = b["value"]
            n = nesting(v)
            if isinstance(v, list) and n >= 2 and any(not isinstance(x, list) for x in v):
                continue  # ragged nesting: not a well-typed list of lists
            streams.append(StreamInfo((), n))
            out.append({"op": "source", "value": v, "out": len(streams) - 1})
            continue
        if not streams:
            continue
        if op == "zip":
            idx = []
            for i in b["srcs"]:
                j = pick(i)
                if j not in idx:
                    idx.append(j)
            if len(idx) < 2:
                continue
            stacks = sorted((streams[j].stack for j in idx), key=len)
            if any(stacks[k + 1][: len(stacks[k])] != stacks[k] for k in range(len(stacks) - 1)):
                continue  # not a prefix chain: dot product undefined
            for j in idx:
                streams[j].consumed = True
            streams.append(StreamInfo(stacks[-1], 0))
            out.append({"op": "zip", "srcs": idx, "out": len(streams) - 1})
            continue
        if op == "join":
            i, j = pick(b["srcs"][0]), pick(b["srcs"][1])
            if i == j or streams[i].stack != streams[j].stack:
                continue
            streams[i].consumed = streams[j].consumed = True
            streams.append(StreamInfo(streams[i].stack, 0))
            out.append({"op": "join", "srcs": [i, j], "out": len(streams) - 1})
            continue
        if op == "cross":
            i, j = pick(b["srcs"][0]), pick(b["srcs"][1])
            if i == j or streams[i].nest < 1 or streams[j].nest < 1 or streams[i].stack != streams[j].stack or len(streams[i].stack) >= 2:
                continue
            streams[i].consumed = streams[j].consumed = True
            streams.append(StreamInfo(streams[i].stack, 1 if b["mode"] == "flat" else 2))
            out.append({"op": "cross", "srcs": [i, j], "mode": b["mode"], "out": len(streams) - 1})
            continue
        src = pick(b["src"])
        s = streams[src]
        if op == "map":
            nest = s.nest if b["fn"] == "id" else 0
            new = StreamInfo(s.stack, nest)
        elif op == "scatter":
            if s.nest < 1 or len(s.stack) >= 3:
                continue
            new = StreamInfo(s.stack + (nscatter,), s.nest - 1)
            b = dict(b, sid=nscatter)
            nscatter += 1
        elif op == "gather":
            if not s.stack or s.nest >= 3:
                continue
            new = StreamInfo(s.stack[:-1], s.nest + 1)
            b = dict(b, sid=s.stack[-1])
        elif op == "cond":
            new = StreamInfo(s.stack, 0)
        elif op == "loop":
            new = StreamInfo(s.stack, 0 if b["method"] == "last" else 2)  # "last" may be None: not scatterable
        elif op == "exec":
            new = StreamInfo(s.stack, 0)
        elif op == "shuffle":
            new = StreamInfo(s.stack, s.nest)
        else:
            raise ValueError(op)
        s.consumed = True
        streams.append(new)
        out.append(dict(b, src=src, out=len(streams) - 1))
    return out, streams


# ---------------------------------------------------------------------------------------------
# reference interpreter


def _is_prefix(p: str, t: str) -> bool:
    a, b = p.split("."), t.split(".")
    return b[: len(a)] == a


def tag_key(t: str):
    return tuple(int(x) for x in t.split("."))


def interpret(blocks: list[dict]) -> dict[int, dict[str, Any]]:
    """stream index -> {tag: plain value}; also fills per-scatter sizes to evaluate gathers."""
    res: dict[int, dict[str, Any]] = {}
    sizes: dict[int, dict[str, int]] = {}
    for b in blocks:
        op = b["op"]
        if op == "source":
            res[b["out"]] = {"0": b["value"]}
        elif op == "map":
            res[b["out"]] = {t: fn_apply(b["fn"], v) for t, v in res[b["src"]].items()}
        elif op == "zip":
            ins = [res[i] for i in b["srcs"]]
            tags = {t for s in ins for t in s}
            o = {}
            for T in tags:
                vals = []
                for s in ins:
                    m = [v for t, v in s.items() if _is_prefix(t, T)]
                    if len(m) != 1:
                        break
                    vals.append(m[0])
                else:
                    o[T] = zip_apply(vals)
            res[b["out"]] = o
        elif op == "scatter":
            o = {}
            sz = {}
            for t, v in res[b["src"]].items():
                sz[t] = len(v)
                for i, x in enumerate(v):
                    o[f"{t}.{i}"] = x
            sizes[b["sid"]] = sz
            res[b["out"]] = o
        elif op == "gather":
            o = {}
            for t, n in sizes[b["sid"]].items():
                o[t] = [res[b["src"]][f"{t}.{i}"] for i in range(n)]
            res[b["out"]] = o
        elif op == "cond":
            res[b["out"]] = {t: (cond_body(v) if cond_pred(v, b["mod"]) else None) for t, v in res[b["src"]].items()}
        elif op == "loop":
            o = {}
            for t, v in res[b["src"]].items():
                state = loop_init(v, b["m"])
                hist = []
                while loop_when(state):
                    state = loop_body(state)
                    hist.append(state)
                if b["method"] == "all":
                    o[t] = hist
                else:
                    o[t] = hist[-1] if hist else None
            res[b["out"]] = o
        elif op == "exec":
            res[b["out"]] = {t: exec_fn(v) for t, v in res[b["src"]].items()}
        elif op == "shuffle":
            res[b["out"]] = dict(res[b["src"]])
        elif op == "join":
            A, B = res[b["srcs"][0]], res[b["srcs"][1]]
            res[b["out"]] = {t: zip_apply([A[t], B[t]]) for t in A if t in B}
        elif op == "cross":
            A, B = res[b["srcs"][0]], res[b["srcs"][1]]
            o = {}
            for t in A:
                if t in B:
                    if b["mode"] == "flat":
                        o[t] = [zip_apply([x, y]) for x in A[t] for y in B[t]]
                    else:
                        o[t] = [[zip_apply([x, y]) for y in B[t]] for x in A[t]]
            res[b["out"]] = o
        else:
            raise ValueError(op)
    return res


def loop_iterations(blocks: list[dict], res: dict[int, dict[str, Any]]) -> list[int]:
    out = []
    for b in blocks:
        if b["op"] == "loop":
            out.extend(loop_bound(v, b["m"]) for v in res[b["src"]].values())
    return out


# ---------------------------------------------------------------------------------------------
# strategies

small_int = st.integers(-20, 60)
flat_list = st.one_of(st.integers(0, 5), st.sampled_from([0, 1, 2, 10, 11, 13])).flatmap(
    lambda n: st.lists(small_int, min_size=n, max_size=n)
)
list2 = st.lists(st.lists(small_int, max_size=4), max_size=4)
source_value = st.one_of(small_int, flat_list, flat_list, list2)
idx = st.integers(0, 30)


def block_strategy(ops=("map", "zip", "scatter", "gather", "cond", "loop"), loop_m=16):
    choices = []
    if "map" in ops:
        choices.append(st.fixed_dictionaries({"op": st.just("map"), "src": idx, "fn": st.sampled_from(["h", "id", "inc"])}))
    if "zip" in ops:
        choices.append(st.fixed_dictionaries({"op": st.just("zip"), "srcs": st.lists(idx, min_size=2, max_size=3)}))
    if "scatter" in ops:
        choices.append(st.fixed_dictionaries({"op": st.just("scatter"), "src": idx}))
        choices.append(st.fixed_dictionaries({"op": st.just("scatter"), "src": idx}))
    if "gather" in ops:
        for _ in range(4):
            choices.append(st.fixed_dictionaries({"op": st.just("gather"), "src": st.integers(10, 30)}))
    if "cond" in ops:
        choices.append(st.fixed_dictionaries({"op": st.just("cond"), "src": idx, "mod": st.integers(2, 4)}))
    if "loop" in ops:
        choices.append(
            st.fixed_dictionaries(
                {"op": st.just("loop"), "src": idx, "m": st.sampled_from([1, 2, 3, 4, 12, loop_m]), "method": st.sampled_from(["last", "all"])}
            )
        )
    if "exec" in ops:
        choices.append(st.fixed_dictionaries({"op": st.just("exec"), "src": idx}))
    choices.append(st.fixed_dictionaries({"op": st.just("source"), "value": source_value}))
    return st.one_of(*choices)


@st.composite
def program_strategy(draw, ops=("map", "zip", "scatter", "gather", "cond", "loop"), max_blocks=12, loop_m=16):
    """State-aware construction: at each position draw among the ops applicable to the streams built
    so far (no rejection). Produces *unresolved* blocks; `analyse` resolves them identically."""
    blocks = [{"op": "source", "value": draw(st.one_of(flat_list, list2, flat_list))}]
    n = draw(st.integers(1, max_blocks - 1))
    for _ in range(n):
        _, streams = analyse(blocks)
        k = len(streams)
        recent = list(range(max(0, k - 3), k))
        cands = ["source"]
        by = {}
        for op in ops:
            if op in ("map", "cond", "loop", "exec"):
                ok = list(range(k))
            elif op == "scatter":
                ok = [i for i, s in enumerate(streams) if s.nest >= 1 and len(s.stack) < 3]
            elif op == "gather":
                ok = [i for i, s in enumerate(streams) if s.stack and s.nest < 3]
            elif op == "zip":
                ok = list(range(k)) if k >= 2 else []
            elif op == "shuffle":
                ok = [i for i, s in enumerate(streams) if s.stack]
            elif op == "join":
                ok = [i for i, s in enumerate(streams) if any(j != i and t.stack == s.stack for j, t in enumerate(streams))]
            elif op == "cross":
                ok = [i for i, s in enumerate(streams) if s.nest >= 1 and len(s.stack) < 2 and any(j != i and t.nest >= 1 and t.stack == s.stack for j, t in enumerate(streams))]
            else:
                ok = []
            if ok:
                by[op] = ok
                w = 3 if op in ("scatter", "gather", "cross") else 2 if op in ("zip", "loop", "exec") else 1
                if op in ("join", "shuffle") and any(s.stack for s in streams):
                    w = 3
                cands.extend([op] * w)
        op = draw(st.sampled_from(cands))
        if op == "source":
            blocks.append({"op": "source", "value": draw(source_value)})
            continue
        ok = by[op]
        pref = [i for i in ok if i in recent] or ok
        src = draw(st.sampled_from(pref if draw(st.integers(0, 3)) else ok))
        if op == "map":
            blocks.append({"op": "map", "src": src, "fn": draw(st.sampled_from(["h", "id", "inc"]))})
        elif op == "cond":
            blocks.append({"op": "cond", "src": src, "mod": draw(st.integers(2, 4))})
        elif op == "loop":
            blocks.append({"op": "loop", "src": src, "m": draw(st.sampled_from([1, 2, 3, 4, 12, loop_m])), "method": draw(st.sampled_from(["last", "all"]))})
        elif op == "zip":
            # partners whose stack is prefix-related to src's
            base = streams[src].stack
            part = [i for i in range(k) if i != src and (streams[i].stack[: len(base)] == base or base[: len(streams[i].stack)] == streams[i].stack)]
            if not part:
                continue
            others = draw(st.lists(st.sampled_from(part), min_size=1, max_size=2, unique=True))
            blocks.append({"op": "zip", "srcs": [src, *others]})
        elif op == "shuffle":
            blocks.append({"op": "shuffle", "src": src, "ranks": draw(st.lists(st.integers(0, 9), min_size=1, max_size=8)), "window": draw(st.sampled_from([0, 0, 2, 3]))})
        elif op == "join":
            part = [j for j, t in enumerate(streams) if j != src and t.stack == streams[src].stack]
            # prefer partners that carry several tokens (scattered streams)
            blocks.append({"op": "join", "srcs": [src, draw(st.sampled_from(part))]})
        elif op == "cross":
            part = [j for j, t in enumerate(streams) if j != src and t.nest >= 1 and t.stack == streams[src].stack]
            blocks.append({"op": "cross", "srcs": [src, draw(st.sampled_from(part))], "mode": draw(st.sampled_from(["flat", "nested"]))})
        else:
            blocks.append({"op": op, "src": src})
    return blocks


schedule_strategy = st.lists(st.integers(0, 4), max_size=12)

# job durations in loop turns: scheduling one job costs a few hundred loop turns (database calls, directory
# creation), so durations up to ~1500 turns make the jobs of a scattered step overlap and finish in any order
durations_strategy = st.lists(st.one_of(st.integers(0, 40), st.integers(100, 1500)), min_size=1, max_size=6)
