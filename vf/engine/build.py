"""Builds a real StreamFlow workflow from a resolved program (see vf.engine.progs)."""
from __future__ import annotations

from typing import Any

from streamflow.core.workflow import Port, Workflow
from streamflow.cwl.step import CWLLoopOutputAllStep, CWLLoopOutputLastStep
from streamflow.workflow.combinator import DotProductCombinator, LoopCombinator, LoopTerminationCombinator
from streamflow.workflow.step import CombinatorStep, GatherStep, LoopCombinatorStep, ScatterStep
from streamflow.workflow.token import TerminationToken

from vf.engine import progs
from vf.engine.detloop import Chaos
from vf.engine.harness import FnTransformer, LoopConditional, PredConditional, ShuffleTransformer, to_token


class Built:
    def __init__(self, wf: Workflow):
        self.wf = wf
        self.ports: dict[int, Port] = {}  # stream index -> port
        self.sources: list[tuple[Port, Any]] = []
        self.size_ports: dict[int, Port] = {}
        self.step_of_block: dict[int, list[str]] = {}


def _fn(wf, name, fn, chaos, in_ports: dict[str, Port], out_name="out", fail_tags=()) -> Port:
    step = wf.create_step(FnTransformer, name=name, fn=fn, chaos=chaos, fail_tags=fail_tags)
    for k, p in in_ports.items():
        step.add_input_port(k, p)
    out = wf.create_port()
    step.add_output_port(out_name, out)
    return out


def build(wf: Workflow, blocks: list[dict], chaos: Chaos | None, *, workdir: str | None = None, log=None,
          fail_plan: dict | None = None, fail_mode: str = "status", faults: dict | None = None, durations=None) -> Built:
    """``fail_plan``: {"<block index>": {"tag": n_failures}} for exec blocks (job name = step name/tag).
    ``faults``: {"<block index>": [tags]} for map / zip / cond blocks: the block's step raises on these tags;
    for loop blocks the tags are iteration tags (instance tag + "." + iteration) at which the body raises.
    ``durations``: per-job durations (loop turns) of exec blocks, consumed cyclically in job-start order."""
    faults = faults or {}
    from vf.engine.harness import ExecLog, exec_pipeline

    b_ = Built(wf)
    b_.log = log or ExecLog()
    b_.exec_steps = {}
    P = b_.ports
    for n, b in enumerate(blocks):
        op = b["op"]
        name = f"/b{n}-{op}"
        if op == "source":
            port = wf.create_port()
            P[b["out"]] = port
            b_.sources.append((port, b["value"]))
        elif op == "map":
            f = b["fn"]
            P[b["out"]] = _fn(wf, name, lambda d, f=f: {"out": progs.fn_apply(f, d["x"])}, chaos, {"x": P[b["src"]]}, fail_tags=faults.get(str(n), ()))
        elif op == "zip":
            comb = DotProductCombinator(workflow=wf, name=name + "-combinator")
            cstep = wf.create_step(CombinatorStep, name=name + "-combinator", combinator=comb)
            names = [f"p{i}" for i in range(len(b["srcs"]))]
            mids = {}
            for pn, si in zip(names, b["srcs"], strict=True):
                comb.add_item(pn)
                cstep.add_input_port(pn, P[si])
                mids[pn] = wf.create_port()
                cstep.add_output_port(pn, mids[pn])
            P[b["out"]] = _fn(wf, name, lambda d, names=names: {"out": progs.zip_apply([d[k] for k in names])}, chaos, mids, fail_tags=faults.get(str(n), ()))
        elif op == "scatter":
            sc = wf.create_step(ScatterStep, name=name)
            sc.add_input_port("x", P[b["src"]])
            out = wf.create_port()
            sc.add_output_port("x", out)
            b_.size_ports[b["sid"]] = sc.get_size_port()
            P[b["out"]] = out
        elif op == "gather":
            g = wf.create_step(GatherStep, name=name, size_port=b_.size_ports[b["sid"]])
            g.add_input_port("x", P[b["src"]])
            out = wf.create_port()
            g.add_output_port("x", out)
            P[b["out"]] = out
        elif op == "cond":
            mod = b["mod"]
            cond = wf.create_step(PredConditional, name=name + "-when", pred=lambda d, mod=mod: progs.cond_pred(d["x"], mod), chaos=chaos, fail_tags=faults.get(str(n), ()))
            cond.add_input_port("x", P[b["src"]])
            body_in = wf.create_port()
            cond.add_output_port("x", body_in)
            body_out = _fn(wf, name + "-body", lambda d: {"x": progs.cond_body(d["x"])}, chaos, {"x": body_in}, out_name="x")
            out = _fn(wf, name + "-output-forward", lambda d: {"x": d["x"]}, None, {"x": body_out}, out_name="x")
            cond.add_skip_port("x", out)
            P[b["out"]] = out
        elif op == "loop":
            P[b["out"]] = _build_loop(wf, name, P[b["src"]], b["m"], b["method"], chaos, body_fail_tags=faults.get(str(n), ()))
        elif op == "shuffle":
            sh = wf.create_step(ShuffleTransformer, name=name, ranks=b["ranks"], window=b["window"])
            sh.add_input_port("x", P[b["src"]])
            out = wf.create_port()
            sh.add_output_port("x", out)
            P[b["out"]] = out
        elif op == "join":
            ins = {"a": P[b["srcs"][0]], "b": P[b["srcs"][1]]}
            P[b["out"]] = _fn(wf, name, lambda d: {"out": progs.zip_apply([d["a"], d["b"]])}, chaos, ins, fail_tags=faults.get(str(n), ()))
        elif op == "cross":
            P[b["out"]] = _build_cross(wf, name, P[b["srcs"][0]], P[b["srcs"][1]], b["mode"], chaos)
        elif op == "exec":
            plan = {f"{name}/{tag}": k for tag, k in (fail_plan or {}).get(str(n), {}).items()}
            out, ex, sched = exec_pipeline(
                wf, name, {"x": P[b["src"]]}, lambda d: progs.exec_fn(d["x"]), workdir, chaos=chaos, log=b_.log,
                fail_plan=plan, mode=fail_mode, durations=durations,
            )
            b_.exec_steps[n] = (ex, sched)
            P[b["out"]] = out
        else:
            raise ValueError(op)
    return b_


def _build_loop(wf: Workflow, name: str, in_port: Port, m: int, method: str, chaos, body_fail_tags=()) -> Port:
    """forwarder -> LoopCombinatorStep -> loop-when -> body -> {output forwarder -> loop output step,
    back-propagation forwarder -> combinator input}; LoopTerminationCombinator feeds the combinator's
    input port — wired as streamflow/cwl/translator.py wires CWL loops."""
    init = _fn(wf, name + "-init", lambda d: {"x": progs.loop_init(d["x"], m)}, None, {"x": in_port}, out_name="x")
    p_fwd = _fn(wf, name + "/x-input-forward", lambda d: {"x": d["x"]}, None, {"x": init}, out_name="x")
    comb = LoopCombinator(workflow=wf, name=name + "-loop-combinator")
    comb.add_item("x")
    cstep = wf.create_step(LoopCombinatorStep, name=name + "-loop-combinator", combinator=comb)
    cstep.add_input_port("x", p_fwd)
    p_c = wf.create_port()
    cstep.add_output_port("x", p_c)
    cond = wf.create_step(LoopConditional, name=name + "-loop-when", pred=lambda d: progs.loop_when(d["x"]), chaos=chaos)
    cond.add_input_port("x", p_c)
    p_body_in = wf.create_port()
    cond.add_output_port("x", p_body_in)
    p_body_out = _fn(wf, name + "/body", lambda d: {"x": progs.loop_body(d["x"])}, chaos, {"x": p_body_in}, out_name="x", fail_tags=body_fail_tags)
    term_comb = LoopTerminationCombinator(workflow=wf, name=name + "-loop-termination-combinator")
    term = wf.create_step(CombinatorStep, name=name + "-loop-terminator", combinator=term_comb)
    term.add_output_port("x", p_fwd)
    term_comb.add_output_item("x")
    p_of = _fn(wf, name + "/x-output-forward", lambda d: {"x": d["x"]}, None, {"x": p_body_out}, out_name="x")
    lo = wf.create_step(CWLLoopOutputAllStep if method == "all" else CWLLoopOutputLastStep, name=name + "/x-loop-output")
    lo.add_input_port("x", p_of)
    cond.add_skip_port("x", p_of)
    p_ext = wf.create_port()
    lo.add_output_port("x", p_ext)
    term.add_input_port("x", p_ext)
    term_comb.add_item("x")
    back = wf.create_step(FnTransformer, name=name + "/x-back-propagation", fn=lambda d: {"x": d["x"]}, chaos=None)
    back.add_input_port("x", p_body_out)
    back.add_output_port("x", p_fwd)
    return p_ext


def _build_cross(wf: Workflow, name: str, pa: Port, pb: Port, mode: str, chaos) -> Port:
    """scatter(a) x scatter(b) -> CartesianProductCombinator -> combine -> gather(s); sizes as the CWL
    translator builds them (flat: CartesianProductSizeTransformer + GatherStep(depth=2); nested: clone
    size transformers + chained gathers)."""
    from streamflow.cwl.transformer import CartesianProductSizeTransformer
    from streamflow.cwl.translator import _create_nested_size_tag
    from streamflow.workflow.combinator import CartesianProductCombinator

    scat = {}
    els = {}
    for k, p in (("a", pa), ("b", pb)):
        sc = wf.create_step(ScatterStep, name=f"{name}/{k}-scatter")
        sc.add_input_port(k, p)
        els[k] = wf.create_port()
        sc.add_output_port(k, els[k])
        scat[k] = sc
    comb = CartesianProductCombinator(workflow=wf, name=name + "-scatter-combinator")
    cstep = wf.create_step(CombinatorStep, name=name + "-scatter-combinator", combinator=comb)
    mids = {}
    for k in ("a", "b"):
        comb.add_item(k)
        cstep.add_input_port(k, els[k])
        mids[k] = wf.create_port()
        cstep.add_output_port(k, mids[k])
    pz = _fn(wf, name, lambda d: {"out": progs.zip_apply([d["a"], d["b"]])}, chaos, mids)
    if mode == "flat":
        st_ = wf.create_step(CartesianProductSizeTransformer, name=name + "-scatter-size-transformer")
        for k in ("a", "b"):
            st_.add_input_port(k, scat[k].get_size_port())
        size_port = wf.create_port()
        st_.add_output_port("a-b", size_port)
        g = wf.create_step(GatherStep, name=name + "-gather", size_port=size_port, depth=2)
        g.add_input_port("out", pz)
        out = wf.create_port()
        g.add_output_port("out", out)
        return out
    sizes = _create_nested_size_tag({"b": scat["b"].get_size_port()}, {"a": scat["a"].get_size_port()}, name, wf)
    cur = pz
    for k, size_port in zip(("a", "b"), sizes, strict=True):
        g = wf.create_step(GatherStep, name=f"{name}-gather-{k}", size_port=size_port)
        g.add_input_port("out", cur)
        cur = wf.create_port()
        g.add_output_port("out", cur)
    return cur


async def inject_sources(ctx, built: Built) -> None:
    for port, value in built.sources:
        tok = to_token(value, "0")
        await tok.save(ctx.database, port.persistent_id)
        port.put(tok)
        port.put(TerminationToken())
