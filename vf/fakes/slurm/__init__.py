"""Fake Slurm queue for C27: harness side.

The four executables next to this file (``sbatch``, ``squeue``, ``scontrol``, ``scancel`` — POSIX
``sh`` scripts sharing ``_lib.sh``; ``_runner.sh`` plays the life of one job) emulate the
command-line interface ``SlurmConnector`` uses, on top of a state directory named by
``VF_FAKE_SLURM_DIR`` (layout: see ``_lib.sh``). :class:`FakeSlurm` creates that directory and a
per-case ``bin/`` with symlinks to the executables, reads the event log, appends the harness's own
events (``call`` / ``returned`` / ``raised`` / ``undeploy-begin`` ...) through the same lock and
sequence counter, so that they are totally ordered with the queue's events, and tears the queue down:
no process that inherited ``VF_FAKE_SLURM_DIR=<this state directory>`` outlives :meth:`close` (found by
scanning ``/proc/*/environ``, so neither process groups nor pid files are needed).
"""
from __future__ import annotations

import fcntl
import json
import os
import signal
import time

HERE = os.path.dirname(os.path.abspath(__file__))
EXECUTABLES = ("sbatch", "squeue", "scontrol", "scancel")
ENV = "VF_FAKE_SLURM_DIR"


def _fmt_seconds(x) -> str:
    return ("%.3f" % float(x)).rstrip("0").rstrip(".") or "0"


class _Locked:
    """The queue's lock (flock on ``lock``), without the shutdown check of the executables: the
    harness still reads and appends after it closed the queue."""

    def __init__(self, state: str):
        self.state = state
        self.fd = -1

    def __enter__(self):
        self.fd = os.open(os.path.join(self.state, "lock"), os.O_RDWR | os.O_CREAT | os.O_APPEND, 0o600)
        fcntl.flock(self.fd, fcntl.LOCK_EX)
        return self

    def __exit__(self, *exc):
        os.close(self.fd)  # closing the only descriptor of this open file description releases the lock
        return False


class FakeSlurm:
    def __init__(self, root: str, *, first_id: int = 1, pending=(), completing=(), min_polls=(), max_jobs: int = 8):
        self.root = root
        self.bin = os.path.join(root, "bin")
        self.state = os.path.join(root, "state")
        os.makedirs(self.bin)
        os.makedirs(os.path.join(self.state, "jobs"))
        os.makedirs(os.path.join(self.state, "config"))
        for name in EXECUTABLES:
            os.symlink(os.path.join(HERE, name), os.path.join(self.bin, name))
        os.symlink(os.path.join(HERE, "_lib.sh"), os.path.join(self.state, "lib.sh"))
        os.symlink(os.path.join(HERE, "_runner.sh"), os.path.join(self.state, "runner.sh"))
        os.makedirs(os.path.join(self.state, "fifo"))
        for i in range(max_jobs):
            os.mkfifo(os.path.join(self.state, "fifo", str(i)))
        for name, values in (("pending", pending), ("completing", completing)):
            with open(os.path.join(self.state, "config", name), "w") as f:
                f.write(" ".join(_fmt_seconds(v) for v in values) + "\n")
        with open(os.path.join(self.state, "config", "min_polls"), "w") as f:
            f.write(" ".join(str(int(v)) for v in min_polls) + "\n")
        for name, value in (("nextid", first_id), ("nsub", 0), ("seqno", 0)):
            with open(os.path.join(self.state, name), "w") as f:
                f.write(f"{int(value)}\n")
        for name in ("log", "lock"):
            open(os.path.join(self.state, name), "w").close()
        self.closed = False

    # -- environment ------------------------------------------------------------------------------
    def env(self, base_path: str | None = None) -> dict[str, str]:
        path = base_path if base_path is not None else os.environ.get("PATH", "/usr/bin:/bin")
        return {"PATH": self.bin + os.pathsep + path, ENV: self.state}

    # -- log --------------------------------------------------------------------------------------
    def append(self, ev: str, job=None, **extra) -> int:
        rec = {"ev": ev}
        if job is not None:
            rec["job"] = str(job)
        rec.update(extra)
        with _Locked(self.state):
            with open(os.path.join(self.state, "seqno")) as f:
                n = int(f.read().strip() or "0") + 1
            with open(os.path.join(self.state, "seqno"), "w") as f:
                f.write(f"{n}\n")
            rec["seq"] = n
            line = (json.dumps(rec, sort_keys=True) + "\n").encode()
            fd = os.open(os.path.join(self.state, "log"), os.O_WRONLY | os.O_APPEND)
            try:
                os.write(fd, line)
            finally:
                os.close(fd)
        return n

    def events(self) -> list[dict]:
        with _Locked(self.state):
            with open(os.path.join(self.state, "log"), errors="replace") as f:
                lines = f.readlines()
        out = []
        for n, line in enumerate(lines, 1):
            try:
                rec = json.loads(line)
            except ValueError as e:
                raise RuntimeError(f"fake slurm log corrupted at line {n}: {line!r}") from e
            if rec.get("seq") != n:
                raise RuntimeError(f"fake slurm log out of sequence at line {n}: {line!r}")
            out.append(rec)
        return out

    def count(self, kinds=None) -> int:
        """Number of logged events (of the given kinds). Cheap and lock-free: lines are appended whole."""
        if kinds is None:
            with open(os.path.join(self.state, "seqno")) as f:
                return int(f.read().strip() or "0")
        pats = [('"ev": "%s"' % k).encode() for k in kinds]
        n = 0
        with open(os.path.join(self.state, "log"), "rb") as f:
            for line in f:
                if line.endswith(b"\n") and any(p in line for p in pats):
                    n += 1
        return n

    def script_of(self, job: str) -> str:
        with open(os.path.join(self.state, "jobs", f"{job}.sh"), errors="replace") as f:
            return f.read()

    def field(self, job: str, name: str) -> str | None:
        try:
            with open(os.path.join(self.state, "jobs", f"{job}.{name}"), errors="replace") as f:
                return f.read().rstrip("\n")
        except FileNotFoundError:
            return None

    # -- teardown ---------------------------------------------------------------------------------
    def processes(self) -> list[int]:
        """Pids of all live (non-zombie) processes that carry this queue's state directory in their
        environment: the queue's runners and job scripts, and the connector's commands (they inherit
        the harness's environment), except the calling process itself."""
        marker = f"{ENV}={self.state}".encode()
        me = os.getpid()
        out = []
        for name in os.listdir("/proc"):
            if not name.isdigit() or int(name) == me:
                continue
            try:
                with open(f"/proc/{name}/environ", "rb") as f:
                    env = f.read()
                if marker not in env.split(b"\0"):
                    continue
                with open(f"/proc/{name}/stat", "rb") as f:
                    if f.read().rsplit(b")", 1)[1].split()[0] == b"Z":
                        continue
            except (OSError, IndexError):
                continue
            out.append(int(name))
        return out

    def close(self, wait: float = 10.0) -> None:
        """Close the queue: from now on every fake process exits as soon as it takes the lock; every
        process that belongs to the queue is killed; returns when none is left."""
        if self.closed:
            return
        self.closed = True
        with _Locked(self.state):
            open(os.path.join(self.state, "shutdown"), "w").close()
        deadline = time.monotonic() + wait
        while True:
            pids = self.processes()
            if not pids:
                return
            for pid in pids:
                try:
                    os.kill(pid, signal.SIGKILL)
                except (ProcessLookupError, PermissionError):
                    pass
            if time.monotonic() > deadline:
                raise RuntimeError(f"fake slurm: processes {pids} survived SIGKILL")
            time.sleep(0.003)
