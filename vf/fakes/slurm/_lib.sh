# Shared functions of the fake Slurm executables (sourced; plain POSIX sh + flock(1)).
#
# State directory $VF_FAKE_SLURM_DIR (created by vf.fakes.slurm.FakeSlurm):
#   lock                 flock()ed around every state transition *and* the log append that records it,
#                        so the order of the log is the order of the state transitions
#   log                  append-only event log, one JSON object per line, "seq": 1, 2, 3, ...;
#                        ordering is read from seq only, never from clocks. Events of the queue:
#                        submit / start / exit / finish / cancel / cancel-noop / cancel-unknown /
#                        squeue / scancel (scontrol is read-only and logs nothing); the harness appends its own through the same lock
#   seqno                last sequence number handed out
#   nextid               next job id
#   nsub                 number of jobs submitted so far (submission index of the next one)
#   shutdown             created by the harness at the end of a case: every fake process that touches
#                        the state afterwards exits at once (status 98) without changing anything
#   lib.sh runner.sh     symlinks to _lib.sh / _runner.sh (so that no executable has to resolve its own path)
#   fifo/<index>         one FIFO per submission index (made by the harness): a job that must outlast N polls
#                        blocks on it, squeue writes a line when the N-th poll has listed the job
#   config/pending       space separated seconds, picked by submission index (cyclic): time a job stays PENDING
#   config/completing    ... time it stays COMPLETING after its script exited
#   config/min_polls     ... number of squeue calls that must have listed the job before it may leave the
#                        queue (a load-independent way of making jobs outlast polls; any finishing time is
#                        a legitimate behaviour of a queue)
#   jobs/<id>.sh         the submitted script;  .argv  sbatch's arguments, one per line
#   jobs/<id>.state      PENDING -> RUNNING -> COMPLETING -> COMPLETED, or CANCELLED
#   jobs/<id>.exit       exit code of the script (valid from COMPLETING on)
#   jobs/<id>.stdout .stderr .stdin .workdir .name .partition   one line each
#   jobs/<id>.pid        pid of the running script
#   jobs/<id>.polls      number of squeue calls that listed the job;  .need / .index  see fifo/
# No process groups, no pid files: every process of the queue inherits VF_FAKE_SLURM_DIR, which is how
# the harness finds (and kills) them at the end of a case. Executions are kept to a minimum (a process
# start is the dominant cost here): each command is one sh plus one flock(1).
# `finish` is logged at the transition to COMPLETED, i.e. when the job *leaves the queue*
# (PENDING, RUNNING and COMPLETING are all listed by squeue).

d="$VF_FAKE_SLURM_DIR"
if [ -z "$d" ] || [ ! -d "$d/jobs" ]; then
  echo "fake slurm: VF_FAKE_SLURM_DIR is not set to a state directory" >&2
  exit 97
fi

lock() {
  exec 9>>"$d/lock"
  flock 9
  if [ -e "$d/shutdown" ]; then exit 98; fi
}

unlock() {
  exec 9>&-
}

logline() {  # $1 = JSON members without seq, e.g. '"ev": "start", "job": "41"'
  _n=0
  [ -e "$d/seqno" ] && read -r _n < "$d/seqno"
  _n=$((_n + 1))
  echo "$_n" > "$d/seqno"
  printf '{%s, "seq": %s}\n' "$1" "$_n" >> "$d/log"
}

getf() {  # getf <id> <field> -> $val
  val=
  [ -e "$d/jobs/$1.$2" ] && read -r val < "$d/jobs/$1.$2"
  :
}

setf() {  # setf <id> <field> <value>
  if [ "$2" = state ]; then
    # fixed width, written in place without truncation: lock-free readers (scontrol) never see it empty
    printf '%-12s\n' "$3" 1<> "$d/jobs/$1.$2"
  else
    printf '%s\n' "$3" > "$d/jobs/$1.$2"
  fi
}

pick() {  # pick <config name> <index> -> $val (0 if the list is empty)
  val=0
  [ -e "$d/config/$1" ] || return 0
  read -r _list < "$d/config/$1"
  # shellcheck disable=SC2086
  set -- $2 $_list
  _idx=$1
  shift
  [ $# -gt 0 ] || return 0
  _k=$((_idx % $# + 1))
  eval "val=\${$_k}"
}

isnum() {
  case "$1" in ""|*[!0-9]*) return 1 ;; *) return 0 ;; esac
}
