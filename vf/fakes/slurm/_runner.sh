#!/bin/sh
# Life of one job of the fake queue (started detached by sbatch):  runner.sh <job id> <submission index>
# PENDING --(pending delay)--> RUNNING (log `start`) --script--> COMPLETING (log `exit`)
# --(completing delay, min_polls)--> COMPLETED (log `finish`). A cancelled job is left alone.
. "$VF_FAKE_SLURM_DIR/lib.sh"
id="$1"; idx="$2"

pick pending "$idx"; delay="$val"
case "$delay" in 0|0.0|"") ;; *) sleep "$delay" ;; esac

lock
getf "$id" state
[ "$val" = PENDING ] || exit 0
getf "$id" stdout; out="$val"
getf "$id" stderr; err="$val"
getf "$id" stdin; inp="$val"
getf "$id" workdir; wd="$val"
getf "$id" name; name="$val"
launch=ok
[ -d "$wd" ] || launch=failed
[ "$launch" = ok ] && { echo -n 2>/dev/null > "$out" || launch=failed; }
[ "$launch" = ok ] && [ "$err" != "$out" ] && { echo -n 2>/dev/null > "$err" || launch=failed; }
[ -r "$inp" ] || launch=failed
if [ "$launch" = failed ]; then
  # e.g. the work dir or the directory of the output file does not exist: the job fails at launch
  setf "$id" exit 1
  setf "$id" state COMPLETED
  logline "\"ev\": \"start\", \"job\": \"$id\""
  logline "\"ev\": \"finish\", \"exit\": 1, \"job\": \"$id\", \"launch_failed\": true"
  exit 0
fi
export SLURM_JOB_ID="$id" SLURM_JOBID="$id" SLURM_JOB_NAME="$name" SLURM_SUBMIT_DIR="$wd"
if [ "$err" = "$out" ]; then
  ( cd "$wd" && exec sh "$d/jobs/$id.sh" ) < "$inp" > "$out" 2>&1 9>&- &
else
  ( cd "$wd" && exec sh "$d/jobs/$id.sh" ) < "$inp" > "$out" 2> "$err" 9>&- &
fi
pid=$!
setf "$id" pid "$pid"
setf "$id" state RUNNING
logline "\"ev\": \"start\", \"job\": \"$id\""
unlock

wait "$pid"
code=$?

pick min_polls "$idx"; need="$val"
fifo="$d/fifo/$idx"
[ -p "$fifo" ] || need=0
# hold the FIFO open read-write before anybody may write to it (opening never blocks this way)
[ "$need" -gt 0 ] && exec 8<>"$fifo"

lock
getf "$id" state
[ "$val" = RUNNING ] || exit 0   # cancelled meanwhile
setf "$id" exit "$code"
setf "$id" state COMPLETING
logline "\"ev\": \"exit\", \"exit\": $code, \"job\": \"$id\""
getf "$id" polls
if [ "$need" -gt 0 ] && [ "${val:-0}" -lt "$need" ]; then
  setf "$id" need "$need"   # squeue writes to the FIFO when its `need`-th listing of the job happens
else
  need=0
fi
unlock

pick completing "$idx"; delay="$val"
case "$delay" in 0|0.0|"") ;; *) sleep "$delay" ;; esac
if [ "$need" -gt 0 ]; then
  read -r _go <&8   # blocks until the job has been listed `need` times (or the harness kills the queue)
  exec 8<&-
fi

lock
getf "$id" state
[ "$val" = COMPLETING ] || exit 0
setf "$id" state COMPLETED
logline "\"ev\": \"finish\", \"exit\": $code, \"job\": \"$id\""
unlock
exit 0
