"""Shell-backed fake *remote* locations and an identity-mount wrapper (DESIGN 2.4).

What is here
------------
``ShellRemoteConnector`` (type name ``"vf-shell"``)
    A ``BaseConnector`` subclass with 1..n **non-local** locations (``local=False``) that all live on
    this host. Everything that matters is the repository's own ``BaseConnector`` code:

    * ``run`` is *literally* ``BaseConnector.run`` (same code object, re-bound so that the
      ``utils.run_in_subprocess`` call at its end receives ``sh -c '<command string>'`` instead of the
      bare command string - exactly what ``DockerConnector._get_run_command`` / ``LocalConnector.run``
      / an SSH session do; a bare ``BaseConnector`` would ``exec`` the word ``cd``). So commands
      without ``job_name``/``stdin`` go through ``get_shell(["sh"])`` -> ``SubprocessShell`` ->
      ``BaseShell.execute`` (persistent shell, end-marker protocol), and commands with ``job_name`` or
      ``stdin`` (and the fallback after a shell failure) go through ``utils.create_command`` +
      ``utils.run_in_subprocess``. A change made to ``BaseConnector.run`` in the tree under test is
      picked up here.
    * ``get_shell`` / ``_create_shell`` / ``undeploy`` (closing the shells), ``copy_local_to_remote``,
      ``copy_remote_to_local``, ``copy_remote_to_remote`` (tar writer ``aiotarstream`` mode ``w`` ->
      ``tar xpf - -C /``; ``tar chf - -C dir base`` -> ``extract_tar_stream``; reader multiplexed to
      writers; ``cp -rf`` / ``ln -snf`` on the same location) are inherited untouched.
    * ``get_stream_reader`` / ``get_stream_writer`` call the inherited implementation with the command
      wrapped as ``sh -c '<words joined by blanks>'``: the remote side of a real connector is a shell
      (SSH session, ``docker exec … sh -c``), and ``get_remote_to_remote_write_command`` relies on it
      (``tar xpf - -O | tee dst > /dev/null``).

    Config (all optional): ``locations`` = int (names ``loc0`` …) or list of names (default 1);
    ``slots`` (int | None); ``hardware`` = ``{"cores": c, "memory": m, "storage": {mount: size}}`` or
    None; ``environment`` = dict put on every location; ``transferBufferSize`` (default 2**16).
    All locations of all "vf-shell" deployments share this host's file system; a check isolates them
    by giving each its own directory below its ``tempfile.mkdtemp()`` sandbox.

``IdentityWrapperConnector`` (type name ``"vf-wrap"``)
    A ``ConnectorWrapper`` whose locations wrap the locations of another deployment one-to-one
    (``wraps=<inner location>``, ``stacked=True`` by default) with identity bind mounts
    (``mounts={"/": "/"}`` by default, the shape ``QueueManagerConnector`` declares), so a path means
    the same inside and outside and ``get_inner_path`` maps it to itself on the inner location. Every
    operation is delegated to the wrapped connector on the inner location, the way
    ``QueueManagerConnector`` does it. Location names are ``"<inner name>-w"``.
    Config: ``mounts``, ``stacked``, ``slots``, ``hardware`` (as above), ``service``.

``register()``
    Puts both classes into ``streamflow.deployment.connector.connector_classes`` (idempotent; it is
    also called at import of this module).

``deployment_config(name, type, **config)`` -> ``DeploymentConfig``
    ``lazy=False`` by default (the deployment manager then stores the real connector object, not a
    ``FutureConnector``). Reserved keywords that are *not* connector config: ``wraps`` (name of the
    wrapped deployment, or a ``WrapsConfig``), ``lazy``, ``external``, ``workdir``.
    ``local_config()`` is the ``__LOCAL__`` deployment the engine uses.

``await deploy_all(context, configs)`` -> ``{name: connector}``
    Deploys through ``context.deployment_manager`` in an order in which every wrapped deployment comes
    before its wrapper. ``await context.deployment_manager.undeploy_all()`` (or ``context.close()``)
    in a ``finally`` closes the persistent shells.

``await get_location(connector, name=None)`` -> ``ExecutionLocation`` (first location by default).

How to use it from a check
--------------------------
Real subprocesses are spawned (``sh``, ``tar``, ``cp`` …): the sub-check must use ``loop="std"``
(the deterministic loop forbids subprocesses) and its oracle must not depend on timing.

    @prop.given("demo", strategy, quick=50, thorough=500, loop="std", shrink=False)
    async def check(case, rec):
        import shutil, tempfile
        from streamflow.data.remotepath import StreamFlowPath
        from vf.engine.harness import make_context
        from vf.fakes.shellremote import deploy_all, deployment_config, get_location
        sandbox = tempfile.mkdtemp(prefix="vf-demo-")
        ctx = make_context(workdir=sandbox)
        try:
            conns = await deploy_all(ctx, [deployment_config("A", "vf-shell", locations=1)])
            loc = await get_location(conns["A"])
            out, status = await conns["A"].run(loc, ["echo", "hi"], capture_output=True)
            assert (out, status) == ("hi", 0) and not loc.local
            d = StreamFlowPath(sandbox, "A", "d", context=ctx, location=loc)  # a RemoteStreamFlowPath
            await d.mkdir(parents=True)
            await (d / "f.txt").write_text("x")
            assert await (d / "f.txt").read_text() == "x"
        finally:
            await ctx.deployment_manager.undeploy_all()
            await ctx.close()
            shutil.rmtree(sandbox, ignore_errors=True)

``python -m vf.fakes.shellremote`` runs this example (plus a wrapper and a tar transfer) and prints OK.
"""
from __future__ import annotations

import asyncio
import json
import shlex
import types
from collections.abc import MutableMapping, MutableSequence
from typing import Any, AsyncContextManager

from streamflow.core import utils as _sf_utils
from streamflow.core.data import StreamWrapper
from streamflow.core.deployment import (
    Connector,
    DeploymentConfig,
    ExecutionLocation,
    LocalTarget,
    WrapsConfig,
)
from streamflow.core.scheduling import AvailableLocation, Hardware, Storage
from streamflow.deployment.connector import connector_classes
from streamflow.deployment.connector.base import BaseConnector, copy_same_connector
from streamflow.deployment.wrapper import (
    ConnectorWrapper,
    get_inner_location,
    get_inner_locations,
)

SHELL_TYPE = "vf-shell"
WRAP_TYPE = "vf-wrap"


def _sh(command: str) -> MutableSequence[str]:
    """The remote side is a shell: ``sh -c '<command>'`` (cf. DockerConnector._get_run_command)."""
    return ["sh", "-c", shlex.quote(command)]


def _make_hardware(spec: MutableMapping[str, Any] | None) -> Hardware | None:
    if spec is None:
        return None
    storage = {
        mount: Storage(mount_point=mount, size=float(size))
        for mount, size in (spec.get("storage") or {}).items()
    }
    return Hardware(
        cores=float(spec.get("cores", 1.0)),
        memory=float(spec.get("memory", 1024.0)),
        storage=storage or None,
    )


class _UtilsProxy:
    """``streamflow.core.utils`` as seen by the re-bound ``BaseConnector.run``: identical, except
    that ``run_in_subprocess`` hands the rendered command string to ``sh -c``."""

    def __getattr__(self, name: str) -> Any:
        return getattr(_sf_utils, name)

    @staticmethod
    async def run_in_subprocess(
        location: ExecutionLocation,
        command: MutableSequence[str],
        capture_output: bool,
        timeout: int | None,
    ) -> tuple[str, int] | None:
        return await _sf_utils.run_in_subprocess(
            location=location,
            command=_sh(" ".join(command)),
            capture_output=capture_output,
            timeout=timeout,
        )


def _rebind_run():
    """``BaseConnector.run`` with its module-global ``utils`` replaced by :class:`_UtilsProxy`.
    Same code object => whatever the tree under test does in ``BaseConnector.run`` happens here."""
    base_run = BaseConnector.run
    if base_run.__code__.co_freevars:  # e.g. a variant using super(): fall back to a plain call
        return None
    glob = dict(base_run.__globals__)
    glob["utils"] = _UtilsProxy()
    fn = types.FunctionType(
        base_run.__code__, glob, base_run.__name__, base_run.__defaults__, None
    )
    fn.__kwdefaults__ = base_run.__kwdefaults__
    fn.__qualname__ = "ShellRemoteConnector.run"
    fn.__doc__ = "BaseConnector.run (same code), subprocess fallback executed through `sh -c`."
    return fn


class ShellRemoteConnector(BaseConnector):
    def __init__(
        self,
        deployment_name: str,
        config_dir: str,
        locations: int | MutableSequence[str] = 1,
        slots: int | None = None,
        hardware: MutableMapping[str, Any] | None = None,
        environment: MutableMapping[str, str] | None = None,
        transferBufferSize: int = 2**16,
    ) -> None:
        super().__init__(
            deployment_name=deployment_name,
            config_dir=config_dir,
            transferBufferSize=transferBufferSize,
        )
        if isinstance(locations, int):
            locations = [f"loc{i}" for i in range(locations)]
        if not locations:
            raise ValueError("ShellRemoteConnector needs at least one location")
        self.location_names: MutableSequence[str] = list(locations)
        self.slots: int | None = slots
        self.hardware_spec: MutableMapping[str, Any] | None = hardware
        self.environment: MutableMapping[str, str] = dict(environment or {})
        self.deployed: bool = False

    def _get_run_command(self, command: str) -> MutableSequence[str]:
        return _sh(command)

    async def deploy(self, external: bool) -> None:
        self.deployed = True

    async def undeploy(self, external: bool) -> None:
        await super().undeploy(external)  # closes the persistent shells
        self.deployed = False

    async def get_available_locations(
        self, service: str | None = None
    ) -> MutableMapping[str, AvailableLocation]:
        locations = {}
        for name in self.location_names:
            loc = AvailableLocation(
                name=name,
                deployment=self.deployment_name,
                service=service,
                hostname="localhost",
                local=False,
                slots=self.slots,
                hardware=_make_hardware(self.hardware_spec),
            )
            if self.environment:
                loc.location.environment = dict(self.environment)
            locations[name] = loc
        return locations

    @classmethod
    def get_schema(cls) -> str:
        return json.dumps(
            {
                "$schema": "https://json-schema.org/draft/2020-12/schema",
                "$id": "https://streamflow.di.unito.it/schemas/verif/vf_shell.json",
                "type": "object",
                "properties": {
                    "locations": {
                        "oneOf": [
                            {"type": "integer", "minimum": 1},
                            {"type": "array", "items": {"type": "string"}, "minItems": 1},
                        ],
                        "default": 1,
                    },
                    "slots": {"type": ["integer", "null"]},
                    "hardware": {"type": ["object", "null"]},
                    "environment": {"type": "object", "additionalProperties": {"type": "string"}},
                    "transferBufferSize": {"type": "integer", "default": 65536},
                },
                "additionalProperties": False,
            }
        )

    async def get_stream_reader(
        self, command: MutableSequence[str], location: ExecutionLocation
    ) -> AsyncContextManager[StreamWrapper]:
        return await super().get_stream_reader(
            command=self._get_run_command(" ".join(command)), location=location
        )

    async def get_stream_writer(
        self, command: MutableSequence[str], location: ExecutionLocation
    ) -> AsyncContextManager[StreamWrapper]:
        return await super().get_stream_writer(
            command=self._get_run_command(" ".join(command)), location=location
        )

    async def _run_fallback(
        self,
        location: ExecutionLocation,
        command: MutableSequence[str],
        environment: MutableMapping[str, str] | None = None,
        workdir: str | None = None,
        stdin: int | str | None = None,
        stdout: int | str = asyncio.subprocess.STDOUT,
        stderr: int | str = asyncio.subprocess.STDOUT,
        capture_output: bool = False,
        timeout: int | None = None,
        job_name: str | None = None,
    ) -> tuple[str, int] | None:
        # Only used if BaseConnector.run cannot be re-bound (see _rebind_run): same structure as
        # BaseConnector.run / ContainerConnector.run, written out.
        import contextlib

        from streamflow.core.exception import WorkflowExecutionException

        if job_name is None and stdin is None:
            with contextlib.suppress(WorkflowExecutionException):
                return await _sf_utils.run_in_shell(
                    shell=await self.get_shell(command=["sh"], location=location),
                    location=location,
                    command=command,
                    environment=environment,
                    workdir=workdir,
                    capture_output=capture_output,
                    timeout=timeout,
                )
        command_str = _sf_utils.create_command(
            self.__class__.__name__, command, environment, workdir, stdin, stdout, stderr
        )
        return await _sf_utils.run_in_subprocess(
            location=location,
            command=self._get_run_command(command_str),
            capture_output=capture_output,
            timeout=timeout,
        )

    run = _rebind_run() or _run_fallback


class IdentityWrapperConnector(ConnectorWrapper):
    def __init__(
        self,
        deployment_name: str,
        config_dir: str,
        connector: Connector,
        service: str | None = None,
        mounts: MutableMapping[str, str] | None = None,
        stacked: bool = True,
        slots: int | None = None,
        hardware: MutableMapping[str, Any] | None = None,
        transferBufferSize: int = 2**16,
    ) -> None:
        super().__init__(
            deployment_name=deployment_name,
            config_dir=config_dir,
            connector=connector,
            service=service,
            transferBufferSize=transferBufferSize,
        )
        self.mounts: MutableMapping[str, str] = dict(mounts or {"/": "/"})
        self.stacked: bool = stacked
        self.slots: int | None = slots
        self.hardware_spec: MutableMapping[str, Any] | None = hardware
        self.deployed: bool = False

    async def deploy(self, external: bool) -> None:
        self.deployed = True

    async def undeploy(self, external: bool) -> None:
        self.deployed = False

    async def get_available_locations(
        self, service: str | None = None
    ) -> MutableMapping[str, AvailableLocation]:
        inner = await self.connector.get_available_locations(service=self.service)
        locations = {}
        for inner_loc in inner.values():
            name = f"{inner_loc.name}-w"
            loc = AvailableLocation(
                name=name,
                deployment=self.deployment_name,
                service=service,
                hostname=inner_loc.hostname,
                local=False,
                slots=self.slots,
                stacked=self.stacked,
                hardware=_make_hardware(self.hardware_spec),
                wraps=inner_loc,
            )
            # same as QueueManagerConnector.get_available_locations: declared after construction
            loc.location.mounts = dict(self.mounts)
            locations[name] = loc
        return locations

    @classmethod
    def get_schema(cls) -> str:
        return json.dumps(
            {
                "$schema": "https://json-schema.org/draft/2020-12/schema",
                "$id": "https://streamflow.di.unito.it/schemas/verif/vf_wrap.json",
                "type": "object",
                "properties": {
                    "mounts": {"type": "object", "additionalProperties": {"type": "string"}},
                    "stacked": {"type": "boolean", "default": True},
                    "slots": {"type": ["integer", "null"]},
                    "hardware": {"type": ["object", "null"]},
                    "service": {"type": ["string", "null"]},
                    "transferBufferSize": {"type": "integer", "default": 65536},
                },
                "additionalProperties": False,
            }
        )

    # --- delegation on the *inner* location(s), as QueueManagerConnector does ---------------------

    async def copy_local_to_remote(
        self,
        src: str,
        dst: str,
        locations: MutableSequence[ExecutionLocation],
        read_only: bool = False,
    ) -> None:
        await self.connector.copy_local_to_remote(
            src=src,
            dst=dst,
            locations=get_inner_locations(locations=locations),
            read_only=read_only,
        )

    async def copy_remote_to_local(
        self,
        src: str,
        dst: str,
        location: ExecutionLocation,
        read_only: bool = False,
    ) -> None:
        await self.connector.copy_remote_to_local(
            src=src,
            dst=dst,
            location=get_inner_location(location=location),
            read_only=read_only,
        )

    async def copy_remote_to_remote(
        self,
        src: str,
        dst: str,
        locations: MutableSequence[ExecutionLocation],
        source_location: ExecutionLocation,
        source_connector: Connector | None = None,
        read_only: bool = False,
    ) -> None:
        source_connector = source_connector or self
        if locations := await copy_same_connector(
            connector=self,
            locations=locations,
            source_location=source_location,
            src=src,
            dst=dst,
            read_only=read_only,
        ):
            await self.connector.copy_remote_to_remote(
                src=src,
                dst=dst,
                locations=get_inner_locations(locations=locations),
                source_location=source_location,
                source_connector=source_connector,
                read_only=read_only,
            )

    async def get_stream_reader(
        self, command: MutableSequence[str], location: ExecutionLocation
    ) -> AsyncContextManager[StreamWrapper]:
        return await self.connector.get_stream_reader(
            command, get_inner_location(location=location)
        )

    async def get_stream_writer(
        self, command: MutableSequence[str], location: ExecutionLocation
    ) -> AsyncContextManager[StreamWrapper]:
        return await self.connector.get_stream_writer(
            command, get_inner_location(location=location)
        )

    async def run(
        self,
        location: ExecutionLocation,
        command: MutableSequence[str],
        environment: MutableMapping[str, str] | None = None,
        workdir: str | None = None,
        stdin: int | str | None = None,
        stdout: int | str = asyncio.subprocess.STDOUT,
        stderr: int | str = asyncio.subprocess.STDOUT,
        capture_output: bool = False,
        timeout: int | None = None,
        job_name: str | None = None,
    ) -> tuple[str, int] | None:
        return await super().run(
            location=get_inner_location(location),
            command=command,
            environment=environment,
            workdir=workdir,
            stdin=stdin,
            stdout=stdout,
            stderr=stderr,
            capture_output=capture_output,
            timeout=timeout,
            job_name=job_name,
        )


def register() -> None:
    """Make the two types known to the deployment manager (the effect of the plugin mechanism)."""
    connector_classes[SHELL_TYPE] = ShellRemoteConnector
    connector_classes[WRAP_TYPE] = IdentityWrapperConnector


register()



def deployment_config(name: str, type: str, **config: Any) -> DeploymentConfig:  # noqa: A002
    wraps = config.pop("wraps", None)
    if isinstance(wraps, str):
        wraps = WrapsConfig(deployment=wraps)
    elif isinstance(wraps, MutableMapping):
        wraps = WrapsConfig(deployment=wraps["deployment"], service=wraps.get("service"))
    external = config.pop("external", False)
    lazy = config.pop("lazy", False)
    workdir = config.pop("workdir", None)
    return DeploymentConfig(
        name=name, type=type, config=config, external=external, lazy=lazy, workdir=workdir, wraps=wraps
    )


def local_config() -> DeploymentConfig:
    """The ``__LOCAL__`` deployment, as ``LocalTarget`` declares it."""
    return LocalTarget().deployment


async def deploy_all(context, configs) -> MutableMapping[str, Connector]:
    """Deploy ``configs`` (wrapped deployments before their wrappers); return ``{name: connector}``."""
    register()
    by_name = {c.name: c for c in configs}
    done: dict[str, Connector] = {}

    async def go(cfg: DeploymentConfig, trail: tuple[str, ...]) -> None:
        if cfg.name in done:
            return
        if cfg.name in trail:
            raise ValueError(f"cyclic wraps: {' -> '.join(trail + (cfg.name,))}")
        if cfg.wraps is not None and cfg.wraps.deployment in by_name:
            await go(by_name[cfg.wraps.deployment], trail + (cfg.name,))
        await context.deployment_manager.deploy(cfg)
        done[cfg.name] = context.deployment_manager.get_connector(cfg.name)

    for cfg in configs:
        await go(cfg, ())
    return {c.name: done[c.name] for c in configs}


async def get_location(connector: Connector, name: str | None = None) -> ExecutionLocation:
    locations = await connector.get_available_locations()
    if name is None:
        return next(iter(locations.values())).location
    return locations[name].location


# -------------------------------------------------------------------------------------------------


async def _selftest() -> None:
    import os
    import shutil
    import tempfile

    from streamflow.core.data import DataType
    from streamflow.data.remotepath import RemoteStreamFlowPath, StreamFlowPath
    from vf.engine.harness import make_context

    sandbox = tempfile.mkdtemp(prefix="vf-shellremote-")
    ctx = make_context(workdir=sandbox)
    try:
        conns = await deploy_all(
            ctx,
            [
                deployment_config("W", WRAP_TYPE, wraps="A"),
                deployment_config("A", SHELL_TYPE, locations=1),
                deployment_config("B", SHELL_TYPE, locations=["b0", "b1"], lazy=True),
                local_config(),
            ],
        )
        assert list(conns) == ["W", "A", "B", "__LOCAL__"]
        assert isinstance(conns["A"], ShellRemoteConnector) and conns["A"].deployed
        loc = await get_location(conns["A"])
        out, status = await conns["A"].run(loc, ["echo", "hi"], capture_output=True)
        assert (out, status) == ("hi", 0) and not loc.local, (out, status)
        assert len(conns["A"]._shells[loc.name]) == 1  # went through the persistent shell
        out, status = await conns["A"].run(
            loc, ["echo", "$V;", "pwd"], environment={"V": "x y"}, workdir=sandbox,
            capture_output=True, job_name="/job/0",
        )
        assert (out, status) == (f"x y\n{sandbox}", 0), (out, status)
        d = StreamFlowPath(sandbox, "A", "d", context=ctx, location=loc)
        assert isinstance(d, RemoteStreamFlowPath)
        await d.mkdir(parents=True)
        await (d / "f.txt").write_text("x")
        assert await (d / "f.txt").read_text() == "x"
        assert open(os.path.join(sandbox, "A", "d", "f.txt")).read() == "x"
        # wrapper: identity path mapping and delegation
        wloc = await get_location(conns["W"])
        assert wloc.stacked and wloc.wraps == loc and wloc.mounts == {"/": "/"} and wloc.name == "loc0-w"
        out, status = await conns["W"].run(wloc, ["cat", str(d / "f.txt")], capture_output=True)
        assert (out, status) == ("x", 0)
        # one tar transfer A -> B/b1 (directory), through the data manager
        bloc = await get_location(conns["B"], "b1")
        ctx.data_manager.register_path(loc, str(d), relpath=str(d), data_type=DataType.PRIMARY)
        dst = os.path.join(sandbox, "B", "copy")
        await ctx.data_manager.transfer_data(loc, str(d), [bloc], dst, writable=True)
        assert open(os.path.join(dst, "f.txt")).read() == "x"
        assert ctx.data_manager.get_data_locations(dst, "B", "b1")
    finally:
        await ctx.deployment_manager.undeploy_all()
        await ctx.close()
        shutil.rmtree(sandbox, ignore_errors=True)
    print("OK")


if __name__ == "__main__":
    asyncio.run(_selftest())
