"""In-memory instrumented connectors for deployment-lifecycle checks (C26).

* :class:`InstrumentedConnector` (type ``vf-instr``): a plain connector; nothing external happens.
* :class:`InstrumentedWrapper` (type ``vf-instr-wrap``): a :class:`ConnectorWrapper` subclass with the
  same instrumentation (the repository's wrapper has no-op ``deploy``/``undeploy``; a real wrapper
  such as a container-in-ssh deployment does real work there, which is what the fake models).

Both are registered into ``streamflow.deployment.connector.connector_classes`` at import (what a
plugin does through entry points). They are created by the code under test (``DefaultDeploymentManager``
or ``FutureConnector``), so the per-case state they report to is a module-level :class:`Session`
installed with :func:`use_session`.

Event log: ``Session.log`` is a list of ``Event`` tuples ``(seq, ev, dep, inst, extra)`` with
``ev`` in ``create | deploy-start | deploy-finished | deploy-failed | undeploy-start |
undeploy-finished | call`` keyed by deployment name ``dep`` *and* connector instance ``inst``
(``"<dep>#<n>"``, n-th instance the code created for that deployment). The harness may append its own
request-level events with :meth:`Session.emit` so that requests and connector events share one order.
``seq`` (the list index) is the only notion of time.

Chaos points (sound delay model, DESIGN R1b): one inside ``deploy`` (between ``deploy-start`` and
``deploy-finished``/``deploy-failed``), one inside ``undeploy``, one inside every connector call. The
delay is ``Session.delay(kind)``-many loop turns; by default it comes from a ``Chaos`` schedule, the
bounded-exhaustive driver replaces it with a decision-tree cursor.

Scripted failures: ``fail_plan[dep][k]`` true = the k-th ``deploy`` call made on any instance of
deployment ``dep`` raises :class:`ScriptedDeployFailure` after its chaos point.
"""
from __future__ import annotations

import asyncio
from collections.abc import MutableMapping, MutableSequence
from typing import Any, NamedTuple

from streamflow.core.deployment import Connector, ExecutionLocation
from streamflow.core.scheduling import AvailableLocation
from streamflow.deployment.connector import connector_classes
from streamflow.deployment.wrapper import ConnectorWrapper

PLAIN_TYPE = "vf-instr"
WRAPPER_TYPE = "vf-instr-wrap"


class ScriptedDeployFailure(Exception):
    """Raised by a fake ``deploy`` whose failure was scripted by the case."""


class Event(NamedTuple):
    seq: int
    ev: str
    dep: str
    inst: str
    extra: Any


class Session:
    def __init__(self, chaos=None, fail_plan: MutableMapping[str, list] | None = None):
        self.chaos = chaos
        self.fail_plan = {k: list(v) for k, v in (fail_plan or {}).items()}
        self.log: list[Event] = []
        self.n_instances: dict[str, int] = {}
        self.n_deploy_calls: dict[str, int] = {}
        self.objects: dict[str, Connector] = {}
        self.points = 0

    # -- log -----------------------------------------------------------------------------------
    def emit(self, ev: str, dep: str = "", inst: str = "", extra: Any = None) -> int:
        self.log.append(Event(len(self.log), ev, dep, inst, extra))
        return len(self.log) - 1

    def new_instance(self, dep: str, obj: Connector, extra: Any = None) -> str:
        n = self.n_instances.get(dep, 0)
        self.n_instances[dep] = n + 1
        inst = f"{dep}#{n}"
        self.objects[inst] = obj
        self.emit("create", dep, inst, extra)
        return inst

    # -- chaos / failures ----------------------------------------------------------------------
    def delay(self, kind: str) -> int:
        """Number of loop turns the external operation `kind` takes."""
        kinds = getattr(self.chaos, "kinds", None)
        if self.chaos is None or (kinds is not None and kind not in kinds):
            return 0
        self.points += 1
        return self.chaos.draw()

    async def point(self, kind: str) -> None:
        for _ in range(self.delay(kind)):
            await asyncio.sleep(0)

    def next_deploy_fails(self, dep: str) -> bool:
        k = self.n_deploy_calls.get(dep, 0)
        self.n_deploy_calls[dep] = k + 1
        plan = self.fail_plan.get(dep, ())
        return bool(plan[k]) if k < len(plan) else False


_session: Session | None = None


def use_session(session: Session | None) -> None:
    global _session
    _session = session


def current() -> Session:
    if _session is None:
        raise RuntimeError("deployfakes: no Session installed (use_session)")
    return _session


class _Instrumented:
    """Shared instrumentation (mixin; the concrete classes fix the Connector base)."""

    inst: str
    deployment_name: str

    def _init_instr(self, extra: Any = None) -> None:
        self.session = current()
        self.inst = self.session.new_instance(self.deployment_name, self, extra)

    async def _deploy(self, external: bool) -> None:
        s = self.session
        s.emit("deploy-start", self.deployment_name, self.inst, {"external": external})
        fails = s.next_deploy_fails(self.deployment_name)
        await s.point("deploy")
        if fails:
            s.emit("deploy-failed", self.deployment_name, self.inst)
            raise ScriptedDeployFailure(f"scripted failure of {self.inst}")
        s.emit("deploy-finished", self.deployment_name, self.inst)

    async def _undeploy(self, external: bool) -> None:
        s = self.session
        s.emit("undeploy-start", self.deployment_name, self.inst, {"external": external})
        await s.point("undeploy")
        s.emit("undeploy-finished", self.deployment_name, self.inst)

    async def _call(self, what: str) -> None:
        s = self.session
        s.emit("call", self.deployment_name, self.inst, what)
        await s.point("call")


class InstrumentedConnector(_Instrumented, Connector):
    def __init__(
        self,
        deployment_name: str,
        config_dir: str,
        transferBufferSize: int = 2**16,
        locations: int = 1,
        slots: int | None = None,
        **kwargs: Any,
    ) -> None:
        Connector.__init__(self, deployment_name, config_dir, transferBufferSize)
        self.locations = locations
        self.slots = slots
        self._init_instr()

    @classmethod
    def get_schema(cls) -> str:  # pragma: no cover - never validated
        return "{}"

    async def deploy(self, external: bool) -> None:
        await self._deploy(external)

    async def undeploy(self, external: bool) -> None:
        await self._undeploy(external)

    async def get_available_locations(self, service: str | None = None) -> MutableMapping[str, AvailableLocation]:
        await self._call("get_available_locations")
        return {
            f"{self.deployment_name}-loc{i}": AvailableLocation(
                name=f"{self.deployment_name}-loc{i}",
                deployment=self.deployment_name,
                hostname="fake-host",
                service=service,
                slots=self.slots,
            )
            for i in range(self.locations)
        }

    async def run(self, location, command, environment=None, workdir=None, stdin=None, stdout=asyncio.subprocess.STDOUT,
                  stderr=asyncio.subprocess.STDOUT, capture_output=False, timeout=None, job_name=None):
        await self._call("run")
        return ("", 0) if capture_output else None

    async def copy_local_to_remote(self, src, dst, locations, read_only=False) -> None:
        await self._call("copy_local_to_remote")

    async def copy_remote_to_local(self, src, dst, location, read_only=False) -> None:
        await self._call("copy_remote_to_local")

    async def copy_remote_to_remote(self, src, dst, locations, source_location, source_connector=None, read_only=False) -> None:
        await self._call("copy_remote_to_remote")

    async def get_shell(self, command, location):
        await self._call("get_shell")
        return None

    async def get_stream_reader(self, command, location):
        await self._call("get_stream_reader")
        return None

    async def get_stream_writer(self, command, location):
        await self._call("get_stream_writer")
        return None


class InstrumentedWrapper(_Instrumented, ConnectorWrapper):
    def __init__(
        self,
        deployment_name: str,
        config_dir: str,
        connector: Connector,
        service: str | None = None,
        transferBufferSize: int = 2**16,
        **kwargs: Any,
    ) -> None:
        ConnectorWrapper.__init__(self, deployment_name, config_dir, connector, service, transferBufferSize)
        inner = getattr(connector, "inst", None)
        self._init_instr({"inner": inner, "inner_dep": connector.deployment_name})

    @classmethod
    def get_schema(cls) -> str:  # pragma: no cover
        return "{}"

    async def deploy(self, external: bool) -> None:
        await self._deploy(external)

    async def undeploy(self, external: bool) -> None:
        await self._undeploy(external)

    async def get_available_locations(self, service: str | None = None) -> MutableMapping[str, AvailableLocation]:
        await self._call("get_available_locations")
        inner = await self.connector.get_available_locations(service=self.service)
        return {
            f"{self.deployment_name}-{name}": AvailableLocation(
                name=f"{self.deployment_name}-{name}",
                deployment=self.deployment_name,
                hostname=loc.location.hostname or "fake-host",
                service=service,
                stacked=True,
                wraps=loc,
            )
            for name, loc in inner.items()
        }

    async def run(self, location, command, environment=None, workdir=None, stdin=None, stdout=asyncio.subprocess.STDOUT,
                  stderr=asyncio.subprocess.STDOUT, capture_output=False, timeout=None, job_name=None):
        await self._call("run")
        return await self.connector.run(
            location=location.wraps if getattr(location, "wraps", None) is not None else location,
            command=command, environment=environment, workdir=workdir, stdin=stdin, stdout=stdout, stderr=stderr,
            capture_output=capture_output, timeout=timeout, job_name=job_name,
        )


def fake_location(deployment: str) -> ExecutionLocation:
    return ExecutionLocation(name=f"{deployment}-loc0", deployment=deployment, hostname="fake-host")


def register() -> None:
    connector_classes[PLAIN_TYPE] = InstrumentedConnector
    connector_classes[WRAPPER_TYPE] = InstrumentedWrapper


register()
