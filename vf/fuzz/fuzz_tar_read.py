"""atheris target for C23 (thorough tier only): bytes -> chunked fake stream -> AioTarStream, differential
against CPython's ``tarfile`` on acceptance, member list and member contents. Nothing is written to disk
(members are read through ``extractfile``), so hostile member names are harmless.

    PYTHONPATH=/verif/.deps:/repo:/verif /venv/bin/python -m vf.fuzz.fuzz_tar_read -runs=200000 -seed=1 [corpus_dir]

Oracle per input (first byte = chunk policy among full / 512 / 513 / 4096 byte reads - short-read policies are
left to the ``chunking`` sub-check because of the known ``seek`` defect):
* the only exceptions allowed are tarfile.TarError / OSError / EOFError (anything else is a crash);
* no hang (read-call budget of the fake stream);
* if the reference reader accepts the archive and lists members M, the async reader lists the same names, types
  and sizes and yields the same bytes for every regular member - unless it raises (failing is always allowed);
* if the reference reader rejects the archive at offset 0, the async reader must not accept it with members.
A disagreement prints ``C23-FUZZ-VIOLATION <kind>`` and raises, which libFuzzer records as a crash.
"""
from __future__ import annotations

import hashlib
import io
import sys
import tarfile

import atheris

with atheris.instrument_imports(include=["streamflow.deployment.aiotarstream", "streamflow.deployment.stream"]):
    from streamflow.deployment import aiotarstream

from vf.engine import detloop
from vf.props import c23

POLICIES = [{"kind": "n"}, {"kind": "fixed", "k": 512}, {"kind": "fixed", "k": 513}, {"kind": "fixed", "k": 4096}]
FakeReader, _ = c23._fake_reader_class()
c23.EOF_READ_BUDGET = 2000


STATS = {"executions": 0, "accepted": 0, "multi_member": 0, "raised": 0, "short_body_known": 0}


STATS_PATH = None


def _dump_stats() -> None:
    import json

    with open(STATS_PATH, "w") as fh:
        fh.write(json.dumps(STATS))


class FuzzViolation(Exception):
    pass


class ShortBody(Exception):
    """known finding F5b (member data shorter than its header size is handed out silently): skipped here so that
    the fuzzer keeps going; the fault tier of the check owns it"""


def reference(data: bytes):
    try:
        tf = tarfile.open(fileobj=io.BytesIO(data), mode="r:")
    except (tarfile.TarError, OSError, EOFError, ValueError, UnicodeError, OverflowError, MemoryError):
        return "rejected-at-open"
    try:
        with tf:
            out = []
            for m in tf.getmembers():
                body = None
                if m.isreg() and not m.sparse:
                    try:
                        body = hashlib.sha1(tf.extractfile(m).read()).hexdigest()
                    except (tarfile.TarError, OSError, EOFError):
                        body = "unreadable"
                out.append((m.name, m.type, m.size, body))
            return out
    except (tarfile.TarError, OSError, EOFError, ValueError, UnicodeError, OverflowError, MemoryError):
        return None


async def under_test(data: bytes, policy: dict):
    reader = FakeReader(data, policy)
    out = []
    async with aiotarstream.open(stream=reader, mode="r", copybufsize=4096) as tar:
        async for m in tar:
            body = None
            if m.isreg() and not m.sparse:
                h = hashlib.sha1()
                n = 0
                async with await tar.extractfile(m) as f:
                    while chunk := await f.read(4096):
                        h.update(chunk)
                        n += len(chunk)
                body = h.hexdigest()
                if n != m.size:
                    raise ShortBody()
            out.append((m.name, m.type, m.size, body))
    return out


def one_input(data: bytes) -> None:
    if len(data) < 2 or len(data) > 1 << 16:
        return
    policy = POLICIES[data[0] % len(POLICIES)]
    data = data[1:]
    STATS["executions"] += 1
    if STATS_PATH and STATS["executions"] % 500 == 0:
        _dump_stats()
    ref = reference(data)
    try:
        got = detloop.run(under_test(data, policy))
    except c23.HangDetected as e:
        print("C23-FUZZ-VIOLATION hang", e, file=sys.stderr)
        raise
    except ShortBody:
        STATS["short_body_known"] += 1
        return
    except (tarfile.TarError, OSError, EOFError):
        STATS["raised"] += 1
        return
    except (MemoryError, OverflowError, ValueError, UnicodeError) as e:
        if not isinstance(ref, list):
            return  # the reference reader chokes on it as well: not a StreamFlow-specific defect
        print(f"C23-FUZZ-VIOLATION crash:{type(e).__name__}", e, file=sys.stderr)
        raise
    STATS["accepted"] += 1
    STATS["multi_member"] += len(got) >= 2
    if ref is None:
        return  # rejected after the first header (truncation seen by seeking back): the async reader cannot know; F5 family
    if ref == "rejected-at-open":
        if got:
            print("C23-FUZZ-VIOLATION accepts-what-tarfile-rejects", got[:3], file=sys.stderr)
            raise FuzzViolation("accepts-what-tarfile-rejects")
        return
    ref_cmp = [r for r in ref if r[3] != "unreadable"]
    if len(ref_cmp) == len(ref) and got != ref:
        print("C23-FUZZ-VIOLATION differs-from-tarfile", got[:4], ref[:4], file=sys.stderr)
        raise FuzzViolation("differs-from-tarfile")


def seed_corpus(directory: str) -> None:
    """A few valid archives (gnu / pax / ustar, long names, hard link), each prefixed by a policy byte."""
    import os

    os.makedirs(directory, exist_ok=True)
    n = 0
    for fmt in (tarfile.GNU_FORMAT, tarfile.PAX_FORMAT, tarfile.USTAR_FORMAT):
        for long in (False, True):
            if long and fmt == tarfile.USTAR_FORMAT:
                continue
            out = io.BytesIO()
            with tarfile.open(fileobj=out, mode="w", format=fmt) as tf:
                for i, size in enumerate((0, 10, 512, 700)):
                    ti = tarfile.TarInfo(("n" * 120 if long else "f") + str(i))
                    ti.size = size
                    tf.addfile(ti, io.BytesIO(bytes(range(256)) * 3)) if size else tf.addfile(ti)
                d = tarfile.TarInfo("dir")
                d.type = tarfile.DIRTYPE
                tf.addfile(d)
                ln = tarfile.TarInfo("hl")
                ln.type = tarfile.LNKTYPE
                ln.linkname = ("n" * 120 if long else "f") + "1"
                tf.addfile(ln)
            body = out.getvalue()
            end = body.rstrip(b"\0")
            body = body[: (len(end) + 511) // 512 * 512 + 1024]
            for p in range(len(POLICIES)):
                with open(os.path.join(directory, f"seed{n}"), "wb") as fh:
                    fh.write(bytes([p]) + body)
                n += 1


def main() -> None:
    argv = list(sys.argv)
    if "--seed-corpus" in argv:
        i = argv.index("--seed-corpus")
        seed_corpus(argv[i + 1])
        del argv[i : i + 2]
    if "--stats" in argv:
        import atexit
        import json

        global STATS_PATH
        i = argv.index("--stats")
        STATS_PATH = argv[i + 1]
        del argv[i : i + 2]
        atexit.register(_dump_stats)  # libFuzzer usually leaves through _exit: stats are also written every 500 runs
    atheris.Setup(argv, one_input)
    atheris.Fuzz()


if __name__ == "__main__":
    main()
