// Instrumented JavaScript evaluation for C31 (DESIGN 2.7).
//
// Long-lived child: one JSON request per line on stdin, one JSON response per line on stdout.
//
//   request  {"id": n, "code": "<complete script>"}
//   response {"id": n, "ok": true,  "reads": [...], "late": [...], "has": [...], "enumerated": bool, "result": <json>}
//            {"id": n, "ok": false, "reads": [...], "error": "<name>: <message>"}
//
// The script is the text cwl_utils would hand to its own node engine (`"use strict";\n<jslib>\n
// (function(){...})()`, built by cwl_utils.sandboxjs.code_fragment_to_js on the Python side) and is run
// exactly as cwl_utils' cwlNodeEngine.js runs it: `require("vm").runInNewContext(code, sandbox)` followed
// by JSON.stringify of the value. The only difference is that the jslib line defining the `inputs` root
// variable reads `var inputs = __vf_wrap(<json literal>);` : the object literal is created inside the
// evaluation context (same realm as in a real run) and wrapped in a Proxy that records every
// first-level property name read on it. Aliases (`var x = inputs`, `f(inputs)`) are the same Proxy, so
// reads through them are recorded too.
//   reads       names read by the script itself
//   late        names read only while the returned value was being serialised (the script returned
//               `inputs` or an alias of it)
//   has         names tested with `in` / hasOwnProperty
//   enumerated  the key set was enumerated (for-in, Object.keys, JSON.stringify)
"use strict";
const vm = require("vm");
const readline = require("readline");

function evaluate(code) {
  const reads = [], late = [], has = [];
  const seen = new Set(), seenLate = new Set(), seenHas = new Set();
  let phase = 0, enumerated = false;
  const handler = {
    get(target, prop, receiver) {
      if (typeof prop === "string") {
        if (phase === 0) {
          if (!seen.has(prop)) { seen.add(prop); reads.push(prop); }
        } else if (!(prop === "toJSON" && !(prop in target))) {
          if (!seen.has(prop) && !seenLate.has(prop)) { seenLate.add(prop); late.push(prop); }
        }
      }
      return Reflect.get(target, prop, receiver);
    },
    has(target, prop) {
      if (typeof prop === "string" && !seenHas.has(prop)) { seenHas.add(prop); has.push(prop); }
      return Reflect.has(target, prop);
    },
    getOwnPropertyDescriptor(target, prop) {
      if (phase === 0 && !enumerated && typeof prop === "string" && !seenHas.has(prop)) {
        seenHas.add(prop); has.push(prop);
      }
      return Reflect.getOwnPropertyDescriptor(target, prop);
    },
    ownKeys(target) { enumerated = true; return Reflect.ownKeys(target); },
  };
  const sandbox = { __vf_wrap: function (obj) { return new Proxy(obj, handler); } };
  try {
    const value = vm.runInNewContext(code, sandbox, { timeout: 5000 });
    phase = 1;
    const text = JSON.stringify(value);
    if (text === undefined) {
      // cwl_utils prints JSON.stringify(value) and json.loads() it: `undefined` is an evaluation error there
      return { ok: false, reads, late, has, enumerated, error: "UndefinedResult: the expression returned undefined" };
    }
    return { ok: true, reads, late, has, enumerated, result: JSON.parse(text) };
  } catch (e) {
    let msg;
    try { msg = (e && e.name ? e.name : typeof e) + ": " + (e && e.message !== undefined ? e.message : String(e)); }
    catch (e2) { msg = "uncoercible exception"; }
    return { ok: false, reads, late, has, enumerated, error: msg };
  }
}

const rl = readline.createInterface({ input: process.stdin, terminal: false });
rl.on("line", function (line) {
  if (!line) return;
  let out;
  try {
    const req = JSON.parse(line);
    out = evaluate(req.code);
    out.id = req.id;
  } catch (e) {
    out = { id: null, ok: false, protocol_error: String(e) };
  }
  process.stdout.write(JSON.stringify(out) + "\n");
});
rl.on("close", function () { process.exit(0); });
