"""Instrumented JavaScript evaluation (DESIGN 2.7) — used by C31.

``JsChild`` owns one long-lived ``node`` process running ``evalproxy.js`` (one JSON request per line,
one JSON response per line). ``RecordingEngine`` is a ``cwl_utils.sandboxjs.JSEngine`` that can be handed
to ``cwl_utils.expression.interpolate`` exactly where StreamFlow's ``eval_expression`` lets cwl_utils use
its default ``NodeJSEngine``: string scanning/interpolation, the parameter-reference fast path
(``regex_eval``) and the JavaScript wrapping (``code_fragment_to_js``) are therefore cwl_utils' own code;
only the object bound to ``inputs`` is replaced by a recording one.

Nothing in here imports StreamFlow.
"""
from __future__ import annotations

import atexit
import json
import os
import subprocess
from typing import Any

HERE = os.path.dirname(os.path.abspath(__file__))
SCRIPT = os.path.join(HERE, "evalproxy.js")
WRAP = "__vf_wrap"


class JsChildError(Exception):
    """The node child misbehaved (protocol error, died): a harness problem, never a verdict."""


class JsChild:
    def __init__(self, node: str = "node"):
        self.node = node
        self.proc: subprocess.Popen | None = None
        self.seq = 0

    def start(self) -> None:
        if self.proc is not None and self.proc.poll() is None:
            return
        self.proc = subprocess.Popen(
            [self.node, "--stack-size=2000", SCRIPT],
            stdin=subprocess.PIPE,
            stdout=subprocess.PIPE,
            stderr=subprocess.DEVNULL,
            text=True,
            encoding="utf-8",
            bufsize=1,
            close_fds=True,
        )

    def stop(self) -> None:
        proc, self.proc = self.proc, None
        if proc is None:
            return
        try:
            if proc.stdin:
                proc.stdin.close()
            proc.wait(timeout=2)
        except Exception:  # noqa: BLE001
            proc.kill()
            proc.wait()
        finally:
            if proc.stdout:
                proc.stdout.close()

    def run(self, code: str) -> dict:
        """Evaluate a complete script; returns the child's response dict."""
        self.start()
        assert self.proc is not None and self.proc.stdin is not None and self.proc.stdout is not None
        self.seq += 1
        try:
            self.proc.stdin.write(json.dumps({"id": self.seq, "code": code}) + "\n")
            self.proc.stdin.flush()
            line = self.proc.stdout.readline()
        except (BrokenPipeError, OSError) as e:
            self.stop()
            raise JsChildError(f"node child I/O failed: {e}") from e
        if not line:
            self.stop()
            raise JsChildError("node child closed its output")
        resp = json.loads(line)
        if resp.get("id") != self.seq or "protocol_error" in resp:
            self.stop()
            raise JsChildError(f"node child protocol error: {resp}")
        return resp


_child: JsChild | None = None


def child() -> JsChild:
    global _child
    if _child is None:
        _child = JsChild()
        atexit.register(shutdown)
    _child.start()
    return _child


def shutdown() -> None:
    global _child
    if _child is not None:
        _child.stop()
        _child = None


class RecordingDict(dict):
    """``inputs`` for the parameter-reference fast path of cwl_utils (pure Python): records the keys
    fetched with ``[]`` (what ``NodeJSEngine.regex_eval`` does to read a field)."""

    def __init__(self, *a: Any, **kw: Any):
        super().__init__(*a, **kw)
        self.reads: list[str] = []

    def __getitem__(self, key: Any) -> Any:
        if isinstance(key, str) and key not in self.reads:
            self.reads.append(key)
        return super().__getitem__(key)


def make_engine(inputs: dict, self_value: Any, runtime: dict, expression_lib: list[str] | None):
    """Build a RecordingEngine (class created lazily so that importing this module never needs cwl_utils)."""
    from cwl_utils.errors import JavascriptException
    from cwl_utils.sandboxjs import JSEngine, NodeJSEngine, code_fragment_to_js

    class RecordingEngine(JSEngine):
        def __init__(self) -> None:
            self.reads: list[str] = []  # during evaluation
            self.late: list[str] = []  # during serialisation of the returned value
            self.has: list[str] = []
            self.enumerated = False
            self.paths: list[str] = []  # "regex" / "js" per evaluated segment
            self.rec_inputs = RecordingDict(inputs)
            self._real = NodeJSEngine()
            # what cwl_utils.expression.jshead(expression_lib, context) produces, with the inputs literal
            # wrapped by the recording Proxy
            self.jslib = "\n".join(
                list(expression_lib or [])
                + [
                    f"var inputs = {WRAP}({json.dumps(inputs, indent=4)});",
                    f"var self = {json.dumps(self_value, indent=4)};",
                    f"var runtime = {json.dumps(runtime, indent=4)};",
                ]
            )

        def _merge(self, dst: list[str], src: list[str]) -> None:
            for n in src:
                if n not in dst:
                    dst.append(n)

        def eval(self, scan: str, jslib: str = "", **kwargs: Any) -> Any:  # noqa: A003
            # `jslib` given by the caller is ignored on purpose: it is "" unless fullJS, and with fullJS
            # it is the jshead() of the same library and context, rebuilt above around the Proxy.
            resp = child().run(code_fragment_to_js(scan, self.jslib))
            self.paths.append("js")
            self._merge(self.reads, resp.get("reads", []))
            self._merge(self.has, resp.get("has", []))
            self.enumerated = self.enumerated or bool(resp.get("enumerated"))
            if not resp["ok"]:
                raise JavascriptException(resp.get("error", "?"))
            self._merge(self.late, resp.get("late", []))
            return resp["result"]

        def regex_eval(self, parsed_string: str, remaining_string: str, current_value: Any, **kwargs: Any) -> Any:
            before = list(self.rec_inputs.reads)
            try:
                out = self._real.regex_eval(parsed_string, remaining_string, current_value)
            except BaseException:
                # cwl_utils falls back to JavaScript (fullJS) or fails; reads of a failed attempt do not count
                self.rec_inputs.reads[:] = before
                raise
            self.paths.append("regex")
            self._merge(self.reads, self.rec_inputs.reads)
            if out is self.rec_inputs:  # `$(inputs)`: the whole object is the value
                self.enumerated = True
                self._merge(self.late, list(self.rec_inputs.keys()))
            return out

    return RecordingEngine()


def evaluate(expression: str, inputs: dict, *, full_js: bool, expression_lib: list[str] | None,
             self_value: Any = None, runtime: dict | None = None) -> dict:
    """Reference evaluation of a CWL expression string the way StreamFlow's ``eval_expression`` does it
    (``cwl_utils.expression.interpolate`` with the same arguments), with a recording ``inputs``.

    Returns ``{"ok", "reads", "late", "has", "enumerated", "paths", "result" | "error"}``.
    """
    import cwl_utils.expression

    runtime = runtime if runtime is not None else {"cores": 1, "ram": 256, "outdir": "/out", "tmpdir": "/tmp"}
    engine = make_engine(inputs, self_value, runtime, expression_lib)
    context = {"inputs": engine.rec_inputs, "self": self_value, "runtime": runtime}
    out: dict = {"ok": False}
    try:
        result = cwl_utils.expression.interpolate(
            expression,
            context,  # type: ignore[arg-type]
            jslib=engine.jslib if full_js else "",
            fullJS=full_js,
            strip_whitespace=True,
            js_engine=engine,
        )
        out = {"ok": True, "result": result}
    except JsChildError:
        raise
    except Exception as e:  # noqa: BLE001  (JavascriptException, SubstitutionError, WorkflowException, ...)
        out = {"ok": False, "error": f"{type(e).__name__}: {str(e)[:300]}"}
    out.update(reads=engine.reads, late=engine.late, has=engine.has, enumerated=engine.enumerated, paths=engine.paths)
    return out
