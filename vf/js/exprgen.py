"""Grammar-based generator of CWL expression *strings* for C31 (DESIGN C31 "Domain").

Hypothesis strategies draw a structured description (choices of a small ES5 grammar, field names, access
forms) and render it to the final case::

    {"cls": <generator class>, "expr": <CWL expression string>, "full_js": bool,
     "lib": [<expressionLib entries>] | None, "inputs": {<field>: <value>, ...},
     "acc": {<field>: [<access form>, ...]}, "feat": [<syntactic features>]}

``acc`` states, per field of ``inputs``, through which *syntactic forms* the expression text can read it
(a fact about the text, not about behaviour); the check uses it only to bucket a missed dependency by
root cause and for the non-triviality rule. The ``inputs`` object has a field for every name the
expression mentions, with a value of the type the expression expects, so evaluation succeeds by
construction (strict mode: every variable is declared).

Access forms
  plain:  dot (``inputs.n``), sq (``inputs['n']``), dq (``inputs["n"]``), alias-assign (``x = inputs; x.n``),
          pr-dot / pr-sq / pr-dq (first segment of a parameter reference)
  shapes: alias-var-init, alias-chained, alias-call-arg, alias-nested-fn, alias-flow, reserved-word,
          indirect-base, key-escape, computed-const, computed-nonconst, numeric-index

Only ES5 is produced (the repository's ANTLR grammar and cwl's JavaScript engine level).
"""
from __future__ import annotations

import re

from hypothesis import strategies as st

# ------------------------------------------------------------------------------------------------
# names

IDENT = [
    "a", "b", "c", "in_file", "out_name", "threads", "x1", "_tmp", "$ref", "fileA", "reads_1",
    "é", "über", "inputs", "self", "runtime", "length", "name", "type", "value", "index", "x", "i", "k", "f",
    "Inputs", "input", "inputsX", "size", "basename",
]
BRACKET = [
    "a b", "in-file", "x.y", "1st", "a/b", "k#1", "ä ö", "a:b", "a+b", "a(b", "a)b", "a{b", "a}b", "a[0]", "a]b",
    "$(x)", "inputs.zz", "it's", 'q"uote', "9", "-", " lead", "trail ",
]
RESERVED = [
    "default", "in", "class", "new", "delete", "function", "this", "case", "for", "if", "do", "package",
    "import", "export", "static", "public", "interface", "var", "return", "null", "true", "false", "typeof",
    "void", "with", "enum", "let", "yield", "super", "const", "else", "while", "try", "catch", "switch",
]
HOSTILE = ["a'b\"c", "'q'", '"dq"', "back\\slash", "tab\there", "é'\"", "'", '"', "x'", "'x"]
# \w+ names that are not JavaScript identifiers (legal after a dot only in parameter references)
WORDLIKE = ["1st", "0a", "9", "007", "２"]

POOLS = {"ident": IDENT, "bracket": BRACKET, "reserved": RESERVED, "hostile": HOSTILE, "wordlike": WORDLIKE}
TYPES = ["int", "str", "arr", "file", "rec"]

_IDENT_RE = re.compile(r"^[A-Za-z_$\u00aa-\uffdc][A-Za-z0-9_$\u00aa-\uffdc]*$")
_RESERVED = set(RESERVED) | {
    "break", "continue", "debugger", "finally", "instanceof", "throw", "extends", "implements", "private",
    "protected", "undefined",
}


def is_identifier(name: str) -> bool:
    return bool(_IDENT_RE.match(name)) and name not in _RESERVED


def js_str(s: str, q: str) -> str:
    """Minimal JavaScript string literal for ``s`` with quote character ``q``."""
    out = []
    for ch in s:
        if ch == "\\":
            out.append("\\\\")
        elif ch == q:
            out.append("\\" + q)
        elif ch == "\n":
            out.append("\\n")
        elif ch == "\t":
            out.append("\\t")
        else:
            out.append(ch)
    return q + "".join(out) + q


def is_plain_literal(name: str, lit: str) -> bool:
    """The literal's text between its quotes is the key itself (no escape sequence needed), and the key
    neither starts nor ends with a quote character."""
    return lit[1:-1] == name and name[0] not in "'\"" and name[-1] not in "'\""


def plain_forms(name: str) -> list[str]:
    out = []
    if is_identifier(name):
        out.append("dot")
    if is_plain_literal(name, js_str(name, "'")):
        out.append("sq")
    if is_plain_literal(name, js_str(name, '"')):
        out.append("dq")
    return out


def value_of(typ: str, seed: int):
    seed %= 4
    if typ == "int":
        return seed
    if typ == "str":
        return ["s", "x.txt", "hello world", ""][seed]
    if typ == "arr":
        return [[1], [2, 0], [3, 1, 2], [0, 0, 5, 7]][seed]
    if typ == "file":
        bn = ["f.txt", "data.tar.gz", "noext", ".hidden"][seed]
        root, dot, ext = bn.rpartition(".")
        if not root:
            root, ext, dot = bn, "", ""
        return {"class": "File", "path": "/data/" + bn, "basename": bn, "nameroot": root, "nameext": dot + ext,
                "size": seed * 100}
    if typ == "rec":
        return {"x": seed, "y": seed + 1, "s": "r%d" % seed}
    raise ValueError(typ)


VAR_NAMES = ["x", "y", "v", "t", "acc", "res", "tmp", "q", "w", "obj", "n", "m", "u", "z"]
NOISE_STR = ["inputs.zz", "inputs['zz']", 'inputs["zz"]', "$(inputs.zz)", "x = inputs; x.zz", "var y = inputs;",
             "}", "{", ")", "(", "//", "/*", "*/"]


class Builder:
    """Renders one expression while drawing choices; keeps the inputs object and the access map."""

    def __init__(self, draw, cats: list[str]):
        self._draw = draw
        self.cats = cats
        self.fields: dict[str, str] = {}
        self.seeds: dict[str, int] = {}
        self.cat: dict[str, str] = {}
        self.acc: dict[str, list[str]] = {}
        self.feat: set[str] = set()
        self.aliases: list[tuple[str, str]] = []  # (variable, access form for reads through it)
        self.locals: list[str] = []  # declared variables holding plain values
        self.funcs: list[str] = []  # call snippets of helper functions declared so far
        self.used_vars: set[str] = set()
        self.allow_escape = False
        self.shadow_seen = False
        self.in_function = 0

    # ---- drawing helpers
    def n(self, hi: int) -> int:
        return self._draw(st.integers(0, hi))

    def pick(self, options):
        return options[self.n(len(options) - 1)]

    def chance(self, percent: int) -> bool:
        return self.n(99) < percent

    def newvar(self, prefix: str | None = None) -> str:
        if prefix is None:
            free = [v for v in VAR_NAMES if v not in self.used_vars]
            name = self.pick(free) if free else "v%d" % len(self.used_vars)
        else:
            k = 0
            while f"{prefix}{k}" in self.used_vars:
                k += 1
            name = f"{prefix}{k}"
        self.used_vars.add(name)
        return name

    # ---- fields
    def add_field(self, name: str, typ: str, cat: str) -> str:
        if name not in self.fields:
            self.fields[name] = typ
            self.seeds[name] = self.n(3)
            self.cat[name] = cat
            self.acc[name] = []
        return name

    def field(self, types: list[str] | None = None, cats: list[str] | None = None, reuse: int = 40) -> str:
        cats = cats or self.cats
        existing = [n for n, t in self.fields.items() if (types is None or t in types) and self.cat[n] in cats]
        if existing and self.chance(reuse):
            return self.pick(existing)
        cat = self.pick(cats)
        cand = [n for n in POOLS[cat] if n not in self.fields]
        if not self.allow_escape and cat != "wordlike":
            cand = [n for n in cand if plain_forms(n)]
        if not cand:
            if existing:
                return self.pick(existing)
            cand = [n for n in IDENT if n not in self.fields] or ["fld%d" % len(self.fields)]
            cat = "ident"
        name = self.pick(cand)
        return self.add_field(name, self.pick(types or TYPES), cat)

    def inputs_object(self) -> dict:
        return {n: (t[4:] if t.startswith("key:") else value_of(t, self.seeds[n])) for n, t in self.fields.items()}

    # ---- access
    def note(self, name: str, form: str) -> None:
        if form not in self.acc[name]:
            self.acc[name].append(form)

    def access(self, name: str, base: str = "inputs", base_form: str | None = None,
               forms: list[str] | None = None) -> str:
        """Source text reading field ``name`` on ``base`` with a literal key."""
        avail = forms or plain_forms(name)
        if not avail:  # only reachable with an escaping literal
            avail = ["sq", "dq"]
        form = self.pick(avail)
        ws = self.n(11)
        if form == "dot":
            text = {9: f"{base} . {name}", 10: f"{base}\n  .{name}", 11: f"{base}. {name}"}.get(ws, f"{base}.{name}")
            plain = True
        else:
            lit = js_str(name, "'" if form == "sq" else '"')
            plain = is_plain_literal(name, lit)
            text = {9: f"{base} [ {lit} ]", 10: f"{base}[\n{lit}]", 11: f"{base}[{lit} ]"}.get(ws, f"{base}[{lit}]")
            if ws >= 9:
                self.feat.add("spaced-access")
        if base_form is not None:
            label = base_form
        elif not plain:
            label = "key-escape"
        else:
            label = form
        self.note(name, label)
        if self.shadow_seen and base == "inputs":
            self.feat.add("after-shadow")
        if self.in_function:
            self.feat.add("read-in-nested-fn")
        return text

    def base(self) -> tuple[str, str | None]:
        if self.aliases and self.chance(60):
            var, form = self.pick(self.aliases)
            return var, form
        return "inputs", None

    def project(self, src: str, typ: str) -> str:
        """Turn a field value of type ``typ`` into a scalar-ish value (never fails at run time)."""
        k = self.n(5)
        if typ == "int":
            return src
        if typ == "str":
            return [src, f"{src}.length", f"{src}.toUpperCase()", f"{src}.charAt(0)", f"{src}.split('.')[0]",
                    f"{src}.replace(/\\.[a-z]+$/, '')"][k]
        if typ == "arr":
            return [f"{src}[0]", f"{src}.length", f"{src}.join('-')", f"{src}.slice(1).length",
                    f"{src}.map(function(e){{ return e * 2; }})[0]",
                    f"{src}.reduce(function(p, c){{ return p + c; }}, 0)"][k]
        if typ == "file":
            return [f"{src}.basename", f"{src}['nameroot']", f"{src}.size", f"{src}.path.split('/').length",
                    f'{src}["nameext"]', f"{src}.basename.length"][k]
        if typ == "rec":
            return [f"{src}.x", f"{src}['y']", f"{src}.s", f'{src}["x"]', f"{src}.s.length", f"{src}.y"][k]
        raise ValueError(typ)

    def read(self, types: list[str] | None = None) -> str:
        name = self.field(types)
        base, bform = self.base()
        return self.project(self.access(name, base, bform), self.fields[name])

    # ---- expressions
    def literal(self) -> str:
        k = self.n(7)
        if k <= 1:
            return str(self.n(9))
        if k == 2:
            return self.pick(["1.5", "0x1f", "1e3", ".5", "true", "false", "null"])
        s = self.pick(NOISE_STR)
        self.feat.add("string-noise")
        return js_str(s, self.pick(["'", '"']))

    def expr(self, depth: int) -> str:
        k = self.n(15) if depth > 0 else self.n(3)
        if k <= 2:
            return self.read()
        if k == 3:
            opts = []
            if self.locals:
                opts.append(lambda: self.pick(self.locals))
            if self.funcs:
                opts.append(lambda: self.pick(self.funcs))
            opts.append(self.literal)
            return self.pick(opts)()
        d = depth - 1
        if k in (4, 5, 6):
            op = self.pick(["+", "+", "-", "*", "/", "%", "<", ">", "<=", ">=", "==", "===", "!=", "!==", "&&", "||",
                            "&", "|", "^", "<<", ">>", ">>>", ","])
            left, right = self.expr(d), self.expr(d)
            return f"({left} {op} {right})" if op == "," or self.chance(50) else f"{left} {op} {right}"
        if k == 7:
            self.feat.add("ternary")
            return f"({self.expr(d)} ? {self.expr(d)} : {self.expr(d)})"
        if k == 8:
            op = self.pick(["!", "-", "+", "typeof ", "~", "void "])
            inner = self.expr(d)
            return f"{op}({inner})" if op != "void " else f"(void ({inner}), {self.read()})"
        if k == 9:
            fn = self.pick(["String", "Number", "Boolean", "Math.abs", "parseInt", "JSON.stringify", "encodeURIComponent",
                            "isNaN"])
            return f"{fn}({self.expr(d)})"
        if k == 10:
            return f"Math.max({self.expr(d)}, {self.expr(d)})"
        if k == 11:
            self.feat.add("array-literal")
            return f"[{self.expr(d)}, {self.expr(d)}][{self.n(1)}]"
        if k == 12:
            self.feat.add("object-literal")
            key = self.pick(["k", "inputs", "'inputs'", '"a b"', "1", "zz"])
            sel = {"k": ".k", "inputs": ".inputs", "'inputs'": "['inputs']", '"a b"': '["a b"]', "1": "[1]", "zz": ".zz"}[key]
            return f"({{{key}: {self.expr(d)}, other: {self.literal()}}}){sel}"
        if k == 13:
            self.feat.add("iife")
            self.in_function += 1
            try:
                inner = self.expr(d)
            finally:
                self.in_function -= 1
            return f"(function(){{ return {inner}; }})()"
        if k == 14:
            # function *expression* whose parameter shadows `inputs`; the argument is a plain object literal
            self.feat.add("shadow-fn-expr")
            sub = self.pick(["zz", "a", "x"])
            return f"(function(inputs){{ return inputs.{sub}; }})({{{sub}: {self.expr(d)}}})"
        # k == 15: member access on a non-inputs object that has a property called `inputs`
        self.feat.add("inputs-as-property")
        return f"({{inputs: {{zz: {self.expr(d)}}}}}).inputs.zz"

    def with_call(self, value: str) -> str:
        """Make sure helper functions declared so far (body or expressionLib) are really called."""
        if self.funcs and self.chance(85):
            call = self.pick(self.funcs)
            return self.pick([f"{call} + {value}", f"[{call}, {value}]", f"({value}, {call})"])
        return value

    # ---- statements (top-level of a `${...}` body unless self.in_function)
    def stmt_var(self, depth: int) -> list[str]:
        v = self.newvar()
        e = self.expr(depth)
        self.locals.append(v)
        return [self.pick([f"var {v} = {e};", f"var {v}; {v} = {e};", f"var {v} = 0, {v}_2 = {e}; {v} = {v}_2;"])]

    def stmt_alias_assign(self) -> list[str]:
        """`var x; x = inputs;` at the top level of the expression's own function body (plain class)."""
        self.feat.add("alias-assign")
        v = self.newvar()
        if self.aliases and self.chance(60):
            src = self.pick(self.aliases)[0]
            self.feat.add("alias-of-alias")
        else:
            src = "inputs"
        self.aliases.append((v, "alias-assign"))
        tail: list[str] = []
        if self.chance(35):
            # a parameterless helper that would reset the alias but is never called: at run time the alias still
            # is `inputs`, so later reads through it must stay in the dependency set (the assignment lives in the
            # helper's own scope for the analysis; seed C31-3 analysed parameterless bodies in the enclosing scope)
            self.feat.add("alias-reset-in-uncalled-fn")
            fn = self.newvar("fn")
            tail = [self.pick([f"function {fn}() {{ {v} = {self.n(9)}; }}",
                               f"function {fn}() {{ var t{fn} = {self.n(9)}; {v} = t{fn}; return {v}; }}"])]
        k = self.n(3)
        if k == 0:
            return [f"var {v};", f"{v} = {src};"] + tail
        if k == 1:
            return [f"var {v} = null;", f"{v} = {src};"] + tail
        if k == 2:
            self.feat.add("alias-assign-in-block")
            return [f"var {v};", f"if (true) {{ {v} = {src}; }}"] + tail
        self.feat.add("alias-assign-in-block")
        return [f"var {v};", f"try {{ {v} = {src}; }} finally {{ }}"] + tail

    def stmt_control(self, depth: int) -> list[str]:
        k = self.n(7)
        if k == 0:
            self.feat.add("if")
            return [f"if ({self.expr(depth)}) {{"] + self.block(depth) + ["} else {"] + self.block(depth) + ["}"]
        if k == 1:
            self.feat.add("for")
            a = self.newvar()
            self.locals.append(a)
            i = self.newvar("i")
            arr = self.field(["arr"])
            src = self.access(arr, *self.base())
            src2 = self.access(arr, *self.base())
            return [f"var {a} = 0;", f"for (var {i} = 0; {i} < {src}.length; {i}++) {{ {a} += {src2}[{i}] + {self.expr(0)}; }}"]
        if k == 2:
            self.feat.add("while")
            c = self.newvar("c")
            return [f"var {c} = 0;", f"while ({c} < {self.n(2)}) {{", f"{c}++;"] + self.block(depth) + ["}"]
        if k == 3:
            self.feat.add("switch")
            return [f"switch ({self.expr(0)}) {{", f"case 0:"] + self.block(depth) + ["break;", f"case {js_str('s', chr(39))}:",
                    "default:"] + self.block(depth) + ["}"]
        if k == 4:
            self.feat.add("try")
            e = self.newvar("e")
            body = self.block(depth)
            return ["try {"] + body + [f"throw {self.expr(0)};", f"}} catch ({e}) {{"] + self.block(depth) + ["} finally {"] + self.block(0) + ["}"]
        if k == 5:
            self.feat.add("do-while")
            return ["do {"] + self.block(depth) + ["} while (false);"]
        if k == 6:
            self.feat.add("for-in-value")
            r = self.field(["rec", "file"])
            kk = self.newvar("p")
            a = self.newvar()
            self.locals.append(a)
            return [f"var {a} = [];", f"for (var {kk} in {self.access(r, *self.base())}) {{ {a}.push({kk}); }}"]
        self.feat.add("labelled")
        return [f"lbl{self.n(9)}: for (;;) {{"] + self.block(depth) + ["break; }"]

    def block(self, depth: int) -> list[str]:
        out: list[str] = []
        for _ in range(self.n(1) + 1):
            v = None
            if self.locals and self.chance(50):
                v = self.pick(self.locals)
                out.append(f"{v} = {self.expr(depth)};")
            else:
                out.append(f"void ({self.expr(depth)});" if self.chance(50) else f"if ({self.expr(depth)}) {{ }}")
        return out

    def stmt_function(self, depth: int) -> list[str]:
        k = self.n(6)
        fn = self.newvar("fn")
        if k == 0:  # declaration reading the global inputs
            self.feat.add("fn-decl-global")
            p = self.newvar("p")
            self.in_function += 1
            try:
                inner = self.expr(depth)
            finally:
                self.in_function -= 1
            self.funcs.append(f"{fn}({self.n(9)})")
            return [f"function {fn}({p}) {{ return {inner} + {p}; }}"]
        if k == 1:  # parameter shadows inputs
            self.feat.add("fn-decl-shadow-param")
            sub = self.pick(["zz", "a", "x", "in_file"])
            params = self.pick(["inputs", "p, inputs", "inputs, p", "p, inputs, r"])
            pos = params.split(", ").index("inputs")
            arg = f"{{{sub}: {self.expr(0)}}}"
            args = ", ".join(arg if j == pos else str(j) for j in range(len(params.split(", "))))
            self.funcs.append(f"{fn}({args})")
            self.shadow_seen = True
            return [f"function {fn}({params}) {{ return inputs.{sub}; }}"]
        if k == 2:  # local variable shadows inputs
            self.feat.add("fn-decl-shadow-var")
            self.funcs.append(f"{fn}()")
            self.shadow_seen = True
            return [f"function {fn}() {{ var inputs = {{zz: {self.n(9)}}}; return inputs.zz; }}"]
        if k == 3:  # nested declaration inside a shadowing one
            self.feat.add("fn-decl-nested-shadow")
            h = self.newvar("h")
            self.funcs.append(f"{fn}({{zz: {self.n(9)}}})")
            self.shadow_seen = True
            return [f"function {fn}(inputs) {{ function {h}() {{ return inputs.zz; }} return {h}(); }}"]
        if k == 4:  # nested declarations, innermost reads the global inputs
            self.feat.add("fn-decl-nested-global")
            h = self.newvar("h")
            self.in_function += 2
            try:
                inner = self.expr(depth)
            finally:
                self.in_function -= 2
            self.funcs.append(f"{fn}()")
            return [f"function {fn}() {{ function {h}() {{ return {inner}; }} return {h}(); }}"]
        if k == 5:  # function expression bound to a variable
            self.feat.add("fn-expr-var")
            self.in_function += 1
            try:
                inner = self.expr(depth)
            finally:
                self.in_function -= 1
            self.funcs.append(f"{fn}()")
            return [f"var {fn} = function() {{ return {inner}; }};"]
        # a shadowing declaration that receives a *field value* (not inputs itself)
        self.feat.add("fn-decl-shadow-param")
        r = self.field(["rec"])
        self.funcs.append(f"{fn}({self.access(r, *self.base())})")
        self.shadow_seen = True
        return [f"function {fn}(inputs) {{ return inputs.x + inputs['y']; }}"]

    def stmt_comment(self) -> list[str]:
        self.feat.add("comment-noise")
        return [self.pick(["// inputs.zz is not read", "/* inputs['zz'] */", "/* var y = inputs;\n y.zz */",
                           "// x = inputs", "/** inputs.zz **/"])]

    def body(self, depth: int, kinds: list[str], nmax: int) -> list[str]:
        lines: list[str] = []
        for _ in range(self.n(nmax - 1) + 1):
            kind = self.pick(kinds)
            if kind == "var":
                lines += self.stmt_var(depth)
            elif kind == "alias":
                lines += self.stmt_alias_assign()
            elif kind == "control":
                lines += self.stmt_control(depth)
            elif kind == "function":
                lines += self.stmt_function(depth)
            elif kind == "comment":
                lines += self.stmt_comment()
        return lines

    def wrap_body(self, lines: list[str], ret: str) -> str:
        style = self.n(5)
        lines = lines + [f"return {ret};"]
        if style == 0 and any(ln.lstrip().startswith("//") for ln in lines):
            style = 1  # a line comment would swallow the rest of a one-line body
        if style == 0:
            return "${ " + " ".join(lines) + " }"
        if style == 1:
            return "${\n  " + "\n  ".join(lines) + "\n}"
        if style == 2:
            self.feat.add("asi")
            # automatic semicolon insertion: drop the terminating semicolon of simple statements at line ends
            out = []
            for ln in lines:
                if ln.endswith(";") and "\n" not in ln and not ln.startswith(("for", "if", "while")):
                    ln = ln[:-1]
                out.append(ln)
            return "${\n" + "\n".join(out) + "\n}"
        if style == 3:
            return "${" + "\n".join(lines) + "}"
        if style == 4:
            return "  ${\t" + "\n\t".join(lines) + "\n}\n"
        return "${\r\n" + "\r\n".join(lines) + "\r\n}"

    def finish(self, cls: str, expr: str, full_js: bool, lib: list[str] | None) -> dict:
        return {
            "cls": cls,
            "expr": expr,
            "full_js": full_js,
            "lib": lib,
            "inputs": self.inputs_object(),
            "acc": {n: list(f) for n, f in self.acc.items()},
            "feat": sorted(self.feat),
        }


# ------------------------------------------------------------------------------------------------
# sub-check "param-refs": parameter references and string interpolation of them (regex fast path)


def _pr_first_segment(b: Builder, name: str) -> str:
    forms = []
    if re.fullmatch(r"\w+", name):
        forms.append("pr-dot")
    forms += ["pr-sq", "pr-dq"]
    form = b.pick(forms)
    b.note(name, form)
    if form == "pr-dot":
        return f".{name}"
    q = "'" if form == "pr-sq" else '"'
    # the parameter-reference syntax only knows \' and \" as escapes; everything else is verbatim
    return f"[{q}{name.replace(q, chr(92) + q)}{q}]"


def _pr_tail(b: Builder, typ: str) -> str:
    k = b.n(3)
    if typ == "int":
        return ""
    if typ == "str":
        return ["", "", "", ".length"][k]
    if typ == "arr":
        return ["", "[0]", ".length", "[0]"][k]
    if typ == "file":
        return ["", ".basename", "['size']", '["nameroot"].length'][k]
    return ["", ".x", "['y']", '["s"]'][k]


def _param_ref(b: Builder) -> str:
    k = b.n(19)
    if k == 19:
        b.feat.add("non-inputs-root")
        return b.pick(["$(self)", "$(runtime.cores)", "$(runtime['outdir'])", "$(null)"])
    if k == 18:
        b.feat.add("whole-inputs")
        return "$(inputs)"
    name = b.field()
    return "$(inputs" + _pr_first_segment(b, name) + _pr_tail(b, b.fields[name]) + ")"


_TEXT = ["", " ", "pre-", "--x=", "it's ", 'say "', "a$b", "$", "\\\\", "{", ")", "\\$(inputs.zz)", "\\${ inputs.zz }",
         "inputs.zz ", "/data/", ".txt", "\n"]


@st.composite
def param_ref_cases(draw):
    b = Builder(draw, ["ident", "ident", "ident", "bracket", "reserved", "hostile", "wordlike"])
    b.allow_escape = True  # quoting is the parameter-reference syntax's own, handled in _pr_first_segment
    full_js = b.chance(50)
    nseg = [1, 1, 1, 2, 3][b.n(4)]
    if nseg == 1 and b.chance(80):
        expr = _param_ref(b)
        if b.chance(15):
            expr = b.pick([" ", "\n", "\t "]) + expr + b.pick([" ", "\n", "  "])
            b.feat.add("outer-whitespace")
        cls = "single"
    else:
        parts = [b.pick(_TEXT)]
        for _ in range(nseg):
            parts.append(_param_ref(b))
            parts.append(b.pick(_TEXT))
        expr = "".join(parts)
        cls = "interpolated"
    return b.finish("pr-" + cls, expr, full_js, None)


# ------------------------------------------------------------------------------------------------
# sub-check "js-plain"

JS_CLASSES = ["expr-dot", "expr-bracket", "expr-mixed", "body-simple", "body-control", "body-functions",
              "body-alias-assign", "body-noise", "interp", "lib"]


def _make_lib(b: Builder) -> list[str]:
    lib: list[str] = []
    for _ in range(b.n(2) + 1):
        k = b.n(4)
        fn = b.newvar("lib")
        if k == 0:
            b.in_function += 1
            inner = b.expr(1)
            b.in_function -= 1
            lib.append(f"function {fn}() {{ return {inner}; }}")
            b.funcs.append(f"{fn}()")
            b.feat.add("lib-reads-inputs")
        elif k == 1:
            lib.append(f"function {fn}(inputs) {{ return inputs.zz; }}")
            b.funcs.append(f"{fn}({{zz: {b.n(9)}}})")
            b.feat.add("lib-shadow")
            b.shadow_seen = True
        elif k == 2:
            lib.append(f"var {fn} = {b.n(9)};")
            b.locals.append(fn)
        elif k == 3:
            r = b.field(["rec"])
            lib.append(f"function {fn}(o) {{ return o.x + 1; }}")
            b.funcs.append(f"{fn}({b.access(r)})")
        else:
            b.in_function += 1
            inner = b.expr(0)
            b.in_function -= 1
            lib.append(f"var {fn} = function(p) {{\n  // helper\n  return {inner} + p;\n}};")
            b.funcs.append(f"{fn}(1)")
            b.feat.add("lib-reads-inputs")
    return lib


def _js_segment(b: Builder, cls: str) -> str:
    """One `$(...)` or `${...}` segment of the given plain class."""
    if cls == "expr-dot":
        b.cats = ["ident"]
        return "$(" + b.expr(2) + ")"
    if cls == "expr-bracket":
        b.cats = ["bracket", "bracket", "reserved", "ident"]
        return "$(" + b.expr(2) + ")"
    if cls == "expr-mixed":
        return "$(" + b.expr(2) + ")"
    if cls == "expr-lib":
        return "$(" + b.with_call(b.expr(1)) + ")"
    if cls == "body-simple":
        return b.wrap_body(b.body(1, ["var"], 2), b.with_call(b.expr(1)))
    if cls == "body-control":
        return b.wrap_body(b.body(0, ["var", "control", "control"], 2), b.expr(1))
    if cls == "body-functions":
        lines = b.body(1, ["function", "function", "var"], 2)
        return b.wrap_body(lines, b.with_call(b.expr(1)))
    if cls == "body-alias-assign":
        lines = b.body(0, ["var", "comment"], 2) if b.chance(40) else []
        lines += b.stmt_alias_assign()
        if b.chance(40):
            lines += b.stmt_alias_assign()
        lines += b.body(0, ["var", "alias", "control", "function", "var"], 2)
        return b.wrap_body(lines, b.expr(1))
    if cls == "body-noise":
        lines = b.body(1, ["comment", "var", "comment"], 2)
        b.feat.add("string-noise")
        return b.wrap_body(lines, f"{js_str(b.pick(NOISE_STR), chr(39))} + {b.expr(1)} + {js_str(b.pick(NOISE_STR), chr(34))}")
    raise ValueError(cls)


@st.composite
def js_plain_cases(draw):
    b = Builder(draw, ["ident", "ident", "ident", "bracket", "reserved"])
    cls = b.pick(JS_CLASSES)
    lib = None
    if cls == "lib":
        lib = _make_lib(b)
        inner = b.pick(["expr-lib", "body-simple", "body-functions"])
        expr = _js_segment(b, inner)
    elif cls == "interp":
        parts = [b.pick(_TEXT)]
        for _ in range(b.n(1) + 1):
            k = b.n(3)
            if k == 0:
                parts.append(_param_ref(b))
            else:
                sub = Builder(draw, b.cats)  # variables are per segment (each segment is its own function)
                sub.fields, sub.seeds, sub.cat, sub.acc, sub.feat = b.fields, b.seeds, b.cat, b.acc, b.feat
                parts.append(_js_segment(sub, sub.pick(["expr-dot", "expr-bracket", "body-simple"])).strip())
            parts.append(b.pick(_TEXT))
        expr = "".join(parts)
    else:
        expr = _js_segment(b, cls)
        if lib is None and b.chance(5):
            lib = []  # `expressionLib: []`
    return b.finish(cls, expr, True, lib)


# ------------------------------------------------------------------------------------------------
# sub-check "js-shapes": syntactic shapes with their own verdict bucket (DESIGN F10 and relatives)

SHAPES = ["alias-var-init", "alias-chained", "alias-call-arg", "alias-nested-fn", "alias-flow",
          "alias-reassigned-in-fn", "reserved-word", "indirect-base", "key-escape", "computed-const",
          "numeric-index"]


def _escaped_literal(b: Builder, name: str) -> str:
    """A string literal for ``name`` that needs escape processing (or quote stripping care) to be understood."""
    q = b.pick(["'", '"'])
    k = b.n(3)
    if k == 0 or name[0] in "\\'\"":
        other = '"' if q == "'" else "'"
        body = "".join("\\" + ch if ch in (q, other, "\\") else ch for ch in name)
        if body == name:  # nothing to escape: use a hex escape for the first character instead
            body = "\\x%02x" % ord(name[0]) + name[1:] if ord(name[0]) < 256 else "\\u%04x" % ord(name[0]) + name[1:]
        return q + body + q
    if k == 1:
        c = name[0]
        return q + ("\\x%02x" % ord(c) if ord(c) < 256 else "\\u%04x" % ord(c)) + js_str(name[1:], q)[1:]
    if k == 2:
        return q + js_str(name[:-1], q)[1:-1] + "\\u%04x" % ord(name[-1]) + q
    return q + "\\\n" + js_str(name, q)[1:]  # line continuation


def _shape_stmts(b: Builder, shape: str) -> tuple[list[str], str]:
    """Statements realising the shape plus a value expression that uses it."""
    if shape == "alias-var-init":
        v = b.newvar()
        src = "inputs"
        k = b.n(3)
        lines = [[f"var {v} = {src};"], [f"var {v} = {src}, {v}_n = 1;"], [f"var {v}_n = 1, {v} = {src};"],
                 [f"for (var {v} = {src}, {v}_i = 0; {v}_i < 1; {v}_i++) {{ }}"]][k]
        b.aliases.append((v, "alias-var-init"))
        return lines, b.expr(1)
    if shape == "alias-chained":
        v, w = b.newvar(), b.newvar()
        b.aliases += [(v, "alias-chained"), (w, "alias-chained")]
        return [f"var {v}, {w};", f"{v} = {w} = inputs;"], b.expr(1)
    if shape == "alias-call-arg":
        fn, p = b.newvar("fn"), b.newvar("o")
        name = b.field()
        inner = b.project(b.access(name, p, "alias-call-arg"), b.fields[name])
        if b.chance(50):
            return [f"function {fn}({p}) {{ return {inner}; }}"], f"{fn}(inputs) + {b.expr(0)}"
        return [], f"(function({p}) {{ return {inner}; }})(inputs) + {b.expr(0)}"
    if shape == "alias-nested-fn":
        fn, v = b.newvar("fn"), b.newvar()
        name = b.field()
        inner = b.project(b.access(name, v, "alias-nested-fn"), b.fields[name])
        return [f"function {fn}() {{ var {v}; {v} = inputs; return {inner}; }}"], f"{fn}() + {b.expr(0)}"
    if shape == "alias-flow":
        v, other = b.newvar(), b.newvar()
        name = b.field()
        use = b.project(b.access(name, v, "alias-flow"), b.fields[name])
        if b.chance(50):
            # the re-assignment is in a branch that is not taken
            return [f"var {other} = {{}};", f"var {v};", f"{v} = inputs;", f"if ({other}.nope) {{ {v} = {other}; }}"], use
        fn = b.newvar("fn")
        # the (hoisted) function that uses the alias precedes the assignment in the text
        return [f"function {fn}() {{ return {use}; }}", f"var {v};", f"{v} = inputs;"], f"{fn}()"
    if shape == "alias-reassigned-in-fn":
        v, other, fn = b.newvar(), b.newvar(), b.newvar("fn")
        b.aliases.append((v, "alias-assign"))
        e = b.expr(1)
        b.aliases.pop()
        return [f"var {other} = {{}};", f"var {v};", f"{v} = inputs;", f"var {v}_r = {e};",
                f"function {fn}() {{ {v} = {other}; }}", f"{fn}();"], f"{v}_r"
    if shape == "reserved-word":
        name = b.field(cats=["reserved"], reuse=0)
        src = b.access(name, "inputs", "reserved-word", forms=["dot"])
        return [], f"{b.project(src, b.fields[name])} + {b.expr(0)}"
    if shape == "indirect-base":
        name = b.field()
        base = b.pick(["(inputs)", "(true ? inputs : null)", "(inputs || {})", "(0, inputs)", "((inputs))", "(null || inputs)"])
        src = b.access(name, base, "indirect-base")
        return [], f"{b.project(src, b.fields[name])} + {b.expr(0)}"
    if shape == "key-escape":
        b.allow_escape = True
        name = b.field(cats=["hostile", "hostile", "ident", "bracket"], reuse=0)
        b.allow_escape = False
        lit = _escaped_literal(b, name)
        b.note(name, "key-escape")
        return [], f"{b.project(f'inputs[{lit}]', b.fields[name])} + {b.expr(0)}"
    if shape == "computed-const":
        name = b.field(cats=["ident", "bracket"])
        half = max(1, len(name) // 2)
        sq = lambda s: js_str(s, "'")  # noqa: E731
        key = b.pick([f"{sq(name[:half])} + {sq(name[half:])}", f"({sq(name)})", f"[{sq(name)}][0]",
                      f"{sq(name[:half])}.concat({sq(name[half:])})", f"true ? {sq(name)} : 'zz'", f"'' + {sq(name)}"])
        b.note(name, "computed-const")
        return [], f"{b.project(f'inputs[{key}]', b.fields[name])} + {b.expr(0)}"
    if shape == "numeric-index":
        name = b.pick(["0", "1", "7"])
        b.add_field(name, "int", "wordlike")
        b.note(name, "numeric-index")
        return [], f"inputs[{name}] + {b.expr(0)}"
    raise ValueError(shape)


@st.composite
def js_shape_cases(draw):
    b = Builder(draw, ["ident", "ident", "bracket"])
    shape = b.pick(SHAPES)
    pre = b.body(0, ["var", "comment"], 2) if b.chance(30) else []
    lines, value = _shape_stmts(b, shape)
    post = b.body(1, ["var", "control"], 2) if b.chance(30) else []
    if not pre and not lines and not post and b.chance(60):
        expr = f"$({value})"
    else:
        expr = b.wrap_body(pre + lines + post, value)
    return b.finish("shape:" + shape, expr, True, None)


# ------------------------------------------------------------------------------------------------
# sub-check "js-dynamic": keys that only exist at run time, and whole-object uses

DYNAMIC = ["var-key", "field-key", "loop-concat-key", "array-of-keys", "for-in", "object-keys", "stringify", "return-whole"]


@st.composite
def js_dynamic_cases(draw):
    b = Builder(draw, ["ident", "ident", "bracket"])
    kind = b.pick(DYNAMIC)
    sq = lambda s: js_str(s, "'")  # noqa: E731
    lines: list[str] = []
    name = b.field()
    extra = b.expr(0)
    if kind == "var-key":
        k = b.newvar("key")
        lines = [f"var {k} = {sq(name)};"]
        b.note(name, "computed-nonconst")
        value = b.project(f"inputs[{k}]", b.fields[name]) + " + " + extra
    elif kind == "field-key":
        sel = "sel" if "sel" not in b.fields else "selector"
        b.fields[sel], b.cat[sel], b.acc[sel], b.seeds[sel] = "key:" + name, "ident", [], 0
        b.note(name, "computed-nonconst")
        value = b.project(f"inputs[{b.access(sel)}]", b.fields[name]) + " + " + extra
    elif kind == "loop-concat-key":
        names = []
        for j in range(2):
            nm = f"p{j}"
            b.add_field(nm, "int", "ident")
            b.note(nm, "computed-nonconst")
            names.append(nm)
        a, i = b.newvar(), b.newvar("i")
        lines = [f"var {a} = 0;", f"for (var {i} = 0; {i} < 2; {i}++) {{ {a} += inputs['p' + {i}]; }}"]
        value = f"{a} + {extra}"
    elif kind == "array-of-keys":
        other = b.field()
        for nm in (name, other):
            b.note(nm, "computed-nonconst")
        ks, a, i = b.newvar("keys"), b.newvar(), b.newvar("i")
        lines = [f"var {ks} = [{sq(name)}, {sq(other)}];", f"var {a} = [];",
                 f"for (var {i} = 0; {i} < {ks}.length; {i}++) {{ {a}.push(inputs[{ks}[{i}]]); }}"]
        value = f"{a}.length + {extra}"
    elif kind == "for-in":
        a, p = b.newvar(), b.newvar("p")
        lines = [f"var {a} = [];", f"for (var {p} in inputs) {{ {a}.push(inputs[{p}]); }}"]
        value = f"{a}.length + {extra}"
        for nm in b.fields:
            b.note(nm, "whole-object")
    elif kind == "object-keys":
        value = f"Object.keys(inputs).map(function(k) {{ return inputs[k]; }}).length + {extra}"
        for nm in b.fields:
            b.note(nm, "whole-object")
    elif kind == "stringify":
        value = f"JSON.stringify(inputs).length + {extra}"
        for nm in b.fields:
            b.note(nm, "whole-object")
    else:
        value = b.pick(["inputs", "{all: inputs}", "[inputs][0]"])
        for nm in b.fields:
            b.note(nm, "whole-object")
    expr = b.wrap_body(lines, value) if lines or b.chance(50) else f"$({value})"
    return b.finish("dyn:" + kind, expr, True, None)
