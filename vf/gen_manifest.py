"""Regenerate /verif/MANIFEST.json from the property modules (run: ./check --manifest)."""
from __future__ import annotations

import importlib
import json
import sys
from pathlib import Path

VERIF = Path(__file__).resolve().parent.parent

# properties whose check is not (yet) claimed: id -> reason
NOT_CLAIMED_DEFAULT = "check not built yet in this session (see DESIGN.md section 3 for the planned PBT design)"

ENGINES = [
    {"name": "cwlgen", "path": "vf/cwlgen/", "kind_free_text": "CWL document generator + differential runner (StreamFlow vs cwltool, one subprocess per run, relative hang budget)"},
    {"name": "fakes", "path": "vf/fakes/", "kind_free_text": "shell-backed fake remote connector, identity wrapper, instrumented deployment connectors, fake Slurm executables; vf/fs.py file-tree generator"},
    {"name": "runner", "path": "vf/runner.py", "kind_free_text": "Hypothesis/enumeration driver: shards, seeds, evidence, replay, known-findings protocol"},
    {"name": "detloop", "path": "vf/engine/detloop.py", "kind_free_text": "deterministic asyncio loop with virtual time, chaos points and exact deadlock detector; synchronous sqlite adapter in vf/engine/syncsql.py"},
]


def main() -> int:
    props = [json.loads(l) for l in (VERIF / "properties.jsonl").read_text().splitlines() if l.strip()]
    overrides = {}
    na_file = VERIF / "vf" / "not_applicable.json"
    if na_file.exists():
        overrides = json.loads(na_file.read_text())
    checks, na = [], []
    served: dict[str, list[str]] = {}
    for p in props:
        pid = p["id"]
        modfile = VERIF / "vf" / "props" / f"{pid.lower()}.py"
        if pid in overrides or not modfile.exists():
            na.append({"property_id": pid, "reason": overrides.get(pid, NOT_CLAIMED_DEFAULT)})
            continue
        prop = importlib.import_module(f"vf.props.{pid.lower()}").prop
        engine = getattr(prop, "engine", "runner")
        served.setdefault(engine, []).append(pid)
        served.setdefault("runner", [])
        checks.append({
            "property_id": pid,
            "quick_cmd": f"./check {pid} quick",
            "thorough_cmd": f"./check {pid} thorough",
            "evidence_file": f"/verif/evidence/{pid}.json",
            "replay_cmd_template": f"./check {pid} --replay {{path}}",
            "engine": engine,
            "level_claimed": {"category": prop.level, "text": prop.level_text, "design_ref": prop.design_ref},
            "level_note": prop.level_note,
            "technique": prop.technique,
        })
    engines = []
    for e in ENGINES:
        e = dict(e)
        e["serves_properties"] = sorted(set(served.get(e["name"], [])) | (set(c["property_id"] for c in checks) if e["name"] == "runner" else set()))
        engines.append(e)
    manifest = {
        "version": 1,
        "setup_cmd": "(/venv/bin/python -c 'import hypothesis' 2>/dev/null || /venv/bin/pip install -q --no-index --find-links /opt/veriftools/wheels hypothesis) && (PYTHONPATH=/verif/.deps /venv/bin/python -c 'import atheris' 2>/dev/null || /venv/bin/pip install -q --no-index --find-links /opt/veriftools/wheels --target /verif/.deps atheris) && chmod +x /verif/check /verif/vf/fakes/slurm/s* 2>/dev/null; true",
        "hooks": {
            "guard": "STREAMFLOW_VERIF",
            "enable": "checks export STREAMFLOW_VERIF=1 (./check does); no repository hook exists: all instrumentation wraps instances from the harness (fake connectors are registered in connector_classes at run time)",
            "baseline_off_cmd": "cd /repo && env -u STREAMFLOW_VERIF /venv/bin/python -m pytest -ra -q -p no:cacheprovider --timeout=900 --continue-on-collection-errors",
            "source_commits": [],
            "add_only": True,
        },
        "engines": engines,
        "checks": checks,
        "notes": "Technique family: property-based testing and fuzzing (Hypothesis strategies, bounded-exhaustive enumeration, explicit oracles). See DESIGN.md.",
        "not_applicable": na,
    }
    (VERIF / "MANIFEST.json").write_text(json.dumps(manifest, indent=1) + "\n")
    print(f"MANIFEST.json: {len(checks)} checks, {len(na)} not claimed")
    return 0


if __name__ == "__main__":
    sys.exit(main())
