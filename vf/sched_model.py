"""Shared machinery of the scheduler properties C10-C13.

* ``VfSchedConnector`` / ``VfSchedWrapper``: instrumented in-memory connectors, registered into
  ``streamflow.deployment.connector.connector_classes`` (the plugin mechanism's effect). They answer
  ``get_available_locations`` from a *world description* (hardware or slots, stacked wrappers) and the
  two remote commands the scheduler path issues (``find -L ... | awk`` = directory usage on release,
  ``test -e p && readlink -f p`` = mount-point resolution) from in-memory tables, with chaos points
  before and after every call (DESIGN R1b).
* ``Model``: the independent capacity accounting (plain dicts, no StreamFlow code): per location and
  per stack level the requirement a job reserves, what is retained after a release (measured
  directory usage), admissibility of a request.
* ``History``: interpreter of generated operation lists (``s`` schedule started as a task, ``n``
  notify following the callers' protocol R1c, ``q`` settle) run against the real ``DefaultScheduler``
  and the model side by side; the oracles of C10, C11, C12 and C13 are separate methods and a
  property module enables exactly its own.
* Hypothesis strategies for worlds and histories.

All quantities are integers in units of 1/8 (cores, MiB): dyadic, so the float arithmetic of
``Hardware`` is exact.
"""
from __future__ import annotations

import asyncio
import os
import posixpath
import re
import shlex
from collections.abc import MutableMapping, MutableSequence
from typing import Any

from hypothesis import strategies as st

from vf.core import HarnessError, Violation

U = 8  # case integers are multiples of 1/8
MIB = 2**20
ACTIVE = ("FIREABLE", "RUNNING")
TERMINAL = ("COMPLETED", "FAILED", "CANCELLED")

# ------------------------------------------------------------------------------------------------
# notification protocol of the real callers (DESIGN R1c), as an automaton over the *model* status of
# the current allocation of a job name. Entries are repeated to weight the choice.
#   ExecuteStep._run_job:        FIREABLE -> RUNNING -> COMPLETED | FAILED | CANCELLED
#   InputInjectorStep.run:       FIREABLE -> RUNNING -> COMPLETED
#   recoverable / FailureManager.recover: RECOVERY from whatever the job is in (the failing call is on
#       the stack: FIREABLE for ScheduleStep/TransferStep, RUNNING for ExecuteStep; nested recoveries hit
#       the other states); RollbackFailureManager._update_request: ROLLBACK only when the status is not
#       ROLLBACK / RUNNING / FIREABLE (is_recovering), i.e. from RECOVERY or from a terminal status
#       (producer whose data was lost); then schedule() of the same job name.
#   the original caller's trailing terminal notification lands on whatever the job is in by then.
#   Duplicates of the same status anywhere. Never RUNNING from a non-FIREABLE/RUNNING status.
ALLOWED = {
    "FIREABLE": ["RUNNING", "RUNNING", "RUNNING", "RUNNING", "FAILED", "CANCELLED", "RECOVERY", "COMPLETED"],
    "RUNNING": ["COMPLETED", "COMPLETED", "COMPLETED", "FAILED", "CANCELLED", "RECOVERY", "RUNNING", "RUNNING"],
    "COMPLETED": ["COMPLETED", "COMPLETED", "COMPLETED", "FAILED", "ROLLBACK", "ROLLBACK", "RECOVERY", "CANCELLED"],
    "FAILED": ["FAILED", "FAILED", "CANCELLED", "ROLLBACK", "ROLLBACK", "RECOVERY", "COMPLETED"],
    "CANCELLED": ["CANCELLED", "CANCELLED", "FAILED", "ROLLBACK", "RECOVERY"],
    "RECOVERY": ["ROLLBACK", "ROLLBACK", "ROLLBACK", "RECOVERY", "FAILED", "CANCELLED"],
    "ROLLBACK": ["ROLLBACK", "FAILED", "CANCELLED", "RECOVERY"],
}

BASES = ["/w", "/data/w"]  # directories the requirement paths live in
KEYS = ["__outdir__", "__tmpdir__"]


# ------------------------------------------------------------------------------------------------
# world description -> flat location table (model side, plain data)


def _mount_of(mounts: list[str], path: str) -> str:
    best = "/"
    for m in mounts:
        if m != "/" and (path == m or path.startswith(m + "/")) and len(m) > len(best):
            best = m
    return best


class LocInfo:
    __slots__ = ("name", "deployment", "kind", "slots", "cores", "mem", "mounts", "binds", "inner", "stacked")

    def __init__(self, name, deployment, kind, slots=None, cores=0, mem=0, mounts=None, binds=None, inner=None, stacked=False):
        self.name = name
        self.deployment = deployment
        self.kind = kind  # "hw" | "slots"
        self.slots = slots
        self.cores = cores
        self.mem = mem
        self.mounts: dict[str, int] = mounts or {}  # mount point -> size (1/8 MiB)
        self.binds: dict[str, str] = binds or {}  # mount point -> path on the inner location
        self.inner: str | None = inner  # name of the wrapped location
        self.stacked = stacked


class World:
    """Flat tables derived from the JSON world description (shared by connectors and the model)."""

    def __init__(self, desc: dict, chaos=None, root: str = ""):
        self.desc = desc
        self.chaos = chaos
        self.root = root  # path prefix ("" for the in-memory connectors, a temp dir for the local tier)
        self.local = bool(root)
        self.predeclare = bool(desc.get("predeclare", True))
        self.locs: dict[str, LocInfo] = {}
        self.deployments: dict[str, list[str]] = {}  # deployment name -> location names (every level)
        self.top: list[str] = []  # names of the deployments targets refer to
        self.wraps: dict[str, str] = {}  # outer deployment -> inner deployment
        self.usage: dict[str, int] = {}  # directory basename -> bytes
        self.paths: set[str] = set()  # every requirement path of the case (pre-declaration)
        self.calls: list[tuple] = []
        self.fail_usage: set[str] = set()  # directory basenames whose usage query fails (directories removed)
        self.failed_queries = 0
        for di, d in enumerate(desc["deps"]):
            name = f"d{di}"
            self.top.append(name)
            self.deployments[name] = []
            stack = d.get("stack")
            inner_names: list[str] = []
            if stack:
                iname = f"d{di}i"
                self.wraps[name] = iname
                self.deployments[iname] = []
                n_inner = 1 if stack["shape"] == "shared" else len(d["locs"])
                for li in range(n_inner):
                    spec = stack["inner"][li % len(stack["inner"])]
                    ln = f"{iname}-l{li}"
                    mounts = {self.p("/"): spec["root"]}
                    if stack.get("data"):
                        mounts[self.p("/data")] = spec["data"]
                    self.locs[ln] = LocInfo(ln, iname, "hw", cores=spec["cores"], mem=spec["mem"], mounts=mounts)
                    self.deployments[iname].append(ln)
                    inner_names.append(ln)
            for li, spec in enumerate(d["locs"]):
                ln = f"{name}-l{li}"
                inner = (inner_names[0] if stack["shape"] == "shared" else inner_names[li]) if stack else None
                if d["kind"] == "slots":
                    self.locs[ln] = LocInfo(ln, name, "slots", slots=spec["slots"], inner=inner, stacked=bool(stack))
                else:
                    mounts = {self.p("/"): spec["root"]}
                    binds = {}
                    if d.get("data"):
                        mounts[self.p("/data")] = spec["data"]
                    if stack:
                        if d.get("data") and stack["bind"] != "none":
                            binds[self.p("/data")] = self.p("/data" if stack["bind"] == "same" else "/vol")
                        if stack.get("root_bind"):
                            binds[self.p("/")] = self.p("/")
                    self.locs[ln] = LocInfo(ln, name, "hw", cores=spec["cores"], mem=spec["mem"], mounts=mounts,
                                            binds=binds, inner=inner, stacked=bool(stack))
                self.deployments[name].append(ln)

    def p(self, path: str) -> str:
        """World path -> actual path ("/" stays "/": it is the catch-all mount point)."""
        if not self.root or path == "/":
            return path
        return self.root + path

    def mount_of(self, loc: str, path: str) -> str:
        return _mount_of(list(self.locs[loc].mounts), path)

    def outer_sharing(self, inner: str) -> list[str]:
        return [l.name for l in self.locs.values() if l.inner == inner]


# ------------------------------------------------------------------------------------------------
# requirement projection and accounting (the reference model)


def req_levels(world: World, loc: str, req: dict | None, paths: dict[str, str] | None) -> list[tuple[str, dict]]:
    """What a job with requirement ``req`` (cores, mem, entries key->size) whose storage entry ``key``
    lives in directory ``paths[key]`` reserves when placed on outer location ``loc``: one record per
    stack level: (location name, {"cores", "mem", "mounts": {mp: size}, "dirs": {mp: [paths]}}).

    Outer level with hardware: every entry counts on the mount point holding its directory. Inner
    level: cores and memory again; an entry reaches the inner location iff its outer mount point is a
    bind; its directory there is bind/relpath(dir, outer mount point) and it counts on the inner mount
    point that holds that directory (what is physically true, and what the scheduler computes when it
    allocates). An outer level without hardware passes cores and memory only."""
    info = world.locs[loc]
    cores = req["cores"] if req else 0
    mem = req["mem"] if req else 0
    mounts: dict[str, int] = {}
    dirs: dict[str, list[str]] = {}
    inner_entries = []
    if info.kind == "hw" and req:
        for key, size in req["entries"].items():
            path = paths[key]
            mp = world.mount_of(info.name, path)
            mounts[mp] = mounts.get(mp, 0) + size
            dirs.setdefault(mp, []).append(path)
            if mp in info.binds:
                b = info.binds[mp]
                inner_entries.append((size, posixpath.normpath(posixpath.join(b, posixpath.relpath(path, mp))), b))
    out = [(info.name, {"cores": cores, "mem": mem, "mounts": mounts, "dirs": dirs})]
    if info.stacked and info.inner:
        inner = world.locs[info.inner]
        imounts: dict[str, int] = {}
        idirs: dict[str, list[str]] = {}
        for size, path, b in inner_entries:
            mp = world.mount_of(inner.name, path)
            imounts[mp] = imounts.get(mp, 0) + size
            idirs.setdefault(mp, []).append(path)
        out.append((inner.name, {"cores": cores, "mem": mem, "mounts": imounts, "dirs": idirs}))
    return out


def nested_under_bind(world: World, loc: str, req: dict | None, paths: dict[str, str]) -> bool:
    """True iff some storage entry of the job reaches the inner location through a bind whose subtree
    contains another inner mount point holding the job's directory (bind /x -> /y, inner mount /y/z)."""
    info = world.locs[loc]
    if not (req and info.kind == "hw" and info.stacked and info.inner):
        return False
    for key in req["entries"]:
        mp = world.mount_of(info.name, paths[key])
        if mp in info.binds:
            b = info.binds[mp]
            inner_path = posixpath.normpath(posixpath.join(b, posixpath.relpath(paths[key], mp)))
            if world.mount_of(info.inner, inner_path) != world.mount_of(info.inner, b):
                return True
    return False


class Abort(Exception):
    """The rest of the history is void for the running oracle (a defect attributed to another property hit)."""


class Model:
    def __init__(self, world: World):
        self.world = world
        self.retained: dict[str, dict[str, int]] = {}  # loc -> mount -> bytes kept after releases

    def usage_of(self, path: str) -> int:
        return self.world.usage.get(posixpath.basename(path), 0)

    def release(self, alloc: dict) -> None:
        """What stays reserved after a release: the measured usage of the job's directories. If the
        measurement fails (fault dimension) the scheduler's documented fallback (warning + empty usage)
        applies: the whole reservation is returned and nothing is kept on that location."""
        if alloc.get("fail"):
            return
        for loc in alloc["locs"]:
            for lname, lv in req_levels(self.world, loc, alloc["req"], alloc["paths"]):
                for mp, ds in lv["dirs"].items():
                    r = self.retained.setdefault(lname, {})
                    r[mp] = r.get(mp, 0) + sum(self.usage_of(d) for d in ds)

    def reserved(self, active: list[dict]) -> dict[str, dict]:
        """Sum of the reservations of the active allocations per location (all levels)."""
        tot: dict[str, dict] = {}
        for a in active:
            for loc in a["locs"]:
                for lname, lv in req_levels(self.world, loc, a["req"], a["paths"]):
                    t = tot.setdefault(lname, {"cores": 0, "mem": 0, "mounts": {}, "jobs": 0})
                    t["cores"] += lv["cores"]
                    t["mem"] += lv["mem"]
                    t["jobs"] += 1
                    for mp, s in lv["mounts"].items():
                        t["mounts"][mp] = t["mounts"].get(mp, 0) + s
        return tot

    def over(self, active: list[dict]) -> list[str]:
        """Capacity excesses of a set of active allocations (C10 oracle)."""
        bad = []
        for lname, t in self.reserved(active).items():
            info = self.world.locs[lname]
            if info.kind == "slots":
                if t["jobs"] > info.slots:
                    bad.append(f"{lname}: {t['jobs']} fireable/running jobs > {info.slots} slots")
            else:
                if t["cores"] > info.cores:
                    bad.append(f"{lname}: cores {t['cores'] / U} > {info.cores / U}")
                if t["mem"] > info.mem:
                    bad.append(f"{lname}: memory {t['mem'] / U} > {info.mem / U}")
                for mp, s in t["mounts"].items():
                    if s > info.mounts.get(mp, 0):
                        bad.append(f"{lname}: storage {mp} {s / U} > {info.mounts.get(mp, 0) / U}")
        return bad

    def fits(self, active: list[dict], cand: dict) -> bool:
        """Would ``cand`` (an allocation record) fit next to ``active``, counting retained usage?"""
        tot = self.reserved(active + [cand])
        touched = {lname for loc in cand["locs"] for lname, _ in req_levels(self.world, loc, cand["req"], cand["paths"])}
        for lname in touched:
            t = tot[lname]
            info = self.world.locs[lname]
            if info.kind == "slots":
                if t["jobs"] > info.slots:
                    return False
            else:
                if t["cores"] > info.cores or t["mem"] > info.mem:
                    return False
                for mp, s in t["mounts"].items():
                    kept = self.retained.get(lname, {}).get(mp, 0)
                    if s * MIB + kept * U > info.mounts.get(mp, 0) * MIB:
                        return False
        return True

    def admissible_sets(self, active: list[dict], dep: str, k: int, req, paths) -> list[tuple[str, ...]]:
        """All k-subsets of the locations of deployment ``dep`` that can jointly host the request."""
        import itertools

        names = self.world.deployments[dep]
        return [c for c in itertools.combinations(names, k) if self.fits(active, {"locs": list(c), "req": req, "paths": paths})]


# ------------------------------------------------------------------------------------------------
# connectors (registered lazily: importing StreamFlow costs ~2 s per shard)

_registered = False


def register():
    """Create the connector / requirement classes and register them; returns a namespace."""
    global _registered, NS
    if _registered:
        return NS
    from streamflow.core.deployment import Connector
    from streamflow.core.scheduling import AvailableLocation, Hardware, HardwareRequirement, Storage
    from streamflow.deployment.connector import connector_classes
    from streamflow.deployment.wrapper import ConnectorWrapper

    class _Base:
        world: World

        async def _pt(self):
            if self.world.chaos is not None:
                await self.world.chaos.point()

        def _answer(self, location, command) -> tuple[str, int]:
            cmd = " ".join(command)
            self.world.calls.append((self.deployment_name, location.name, cmd[:12]))
            if cmd.startswith("find -L "):
                # `find -L <quoted paths> -type f -exec ls -ln {} \+ | awk ...`: the paths are shell words (the
                # quoting style is the repository's business), so they are read back with a shell-word parser
                head = cmd.split(" -type f", 1)[0]
                total = 0
                for p in shlex.split(head)[2:]:
                    if posixpath.basename(p) in self.world.fail_usage:
                        # fault dimension: the job's directories are gone, the measurement exits non-zero
                        # (-> WorkflowExecutionException in remotepath._check_status)
                        self.world.failed_queries += 1
                        return f"find: '{p}': No such file or directory\n", 1
                    total += self.world.usage.get(posixpath.basename(p), 0)
                return f"{total}\n", 0
            if command[:2] == ["test", "-e"]:
                return shlex.split(command[2])[0] + "\n", 0
            raise HarnessError(f"unexpected remote command on {location.name}: {cmd[:200]}")

    def _hardware(world: World, info: LocInfo):
        if info.kind != "hw":
            return None
        storage = {}
        for mp, size in info.mounts.items():
            paths = set()
            if world.predeclare:
                paths = {p for p in world.paths if world.mount_of(info.name, p) == mp}
            storage[mp] = Storage(mount_point=mp, size=size / U, paths=paths, bind=info.binds.get(mp))
        return Hardware(cores=info.cores / U, memory=info.mem / U, storage=storage)

    class VfSchedConnector(_Base, Connector):
        def __init__(self, deployment_name: str, config_dir: str, world: World, transferBufferSize: int = 2**16):
            super().__init__(deployment_name, config_dir, transferBufferSize)
            self.world = world
            # like SSHConnector: one Hardware object per location, shared by every AvailableLocation
            self._hw = {n: _hardware(world, world.locs[n]) for n in world.deployments[deployment_name]}

        async def get_available_locations(self, service=None):
            await self._pt()
            out = {}
            for n in self.world.deployments[self.deployment_name]:
                info = self.world.locs[n]
                out[n] = AvailableLocation(name=n, deployment=self.deployment_name, hostname="vfhost", local=self.world.local,
                                           service=service, slots=info.slots, hardware=self._hw[n])
            await self._pt()
            return out

        async def run(self, location, command, environment=None, workdir=None, stdin=None, stdout=None, stderr=None,
                      capture_output=False, timeout=None, job_name=None):
            await self._pt()
            r = self._answer(location, list(command))
            await self._pt()
            return r if capture_output else None

        async def deploy(self, external: bool) -> None:
            return None

        async def undeploy(self, external: bool) -> None:
            return None

        async def copy_local_to_remote(self, *a, **k):
            raise HarnessError("copy not expected in scheduler checks")

        copy_remote_to_local = copy_remote_to_remote = get_shell = get_stream_reader = get_stream_writer = copy_local_to_remote

        @classmethod
        def get_schema(cls) -> str:
            return "{}"

    class VfSchedWrapper(_Base, ConnectorWrapper):
        """Stacked deployment: every outer location has ``stacked=True`` and ``wraps`` an inner one
        (the shape of the container connectors; 'shared' = all outer locations on one inner location,
        as DockerComposeConnector; 'one2one' = a generic ConnectorWrapper plugin)."""

        def __init__(self, deployment_name: str, config_dir: str, connector, service, world: World, transferBufferSize: int = 2**16):
            super().__init__(deployment_name, config_dir, connector, service, transferBufferSize)
            self.world = world
            self._hw = {n: _hardware(world, world.locs[n]) for n in world.deployments[deployment_name]}

        async def get_available_locations(self, service=None):
            await self._pt()
            inner = await self.connector.get_available_locations(service=self.service)
            out = {}
            for n in self.world.deployments[self.deployment_name]:
                info = self.world.locs[n]
                out[n] = AvailableLocation(name=n, deployment=self.deployment_name, hostname="vfhost", local=False, service=service,
                                           slots=info.slots, stacked=True, hardware=self._hw[n], wraps=inner[info.inner])
            await self._pt()
            return out

        async def run(self, location, command, environment=None, workdir=None, stdin=None, stdout=None, stderr=None,
                      capture_output=False, timeout=None, job_name=None):
            await self._pt()
            r = self._answer(location, list(command))
            await self._pt()
            return r if capture_output else None

        @classmethod
        def get_schema(cls) -> str:
            return "{}"

    class Req(HardwareRequirement):
        """cores, memory and one storage entry per key with exactly one directory, like
        CWLHardwareRequirement (``__outdir__`` / ``__tmpdir__``)."""

        def __init__(self, cores: int, mem: int, entries: dict[str, int], paths: dict[str, str]):
            self.cores, self.mem, self.entries, self.paths = cores, mem, entries, paths

        @classmethod
        async def _load(cls, row, loading_context):
            raise NotImplementedError

        async def _save_additional_params(self, database):
            return {}

        def eval(self, job):
            return Hardware(cores=self.cores / U, memory=self.mem / U,
                            storage={k: Storage(os.sep, s / U, {self.paths[k]}) for k, s in self.entries.items()})

    connector_classes["vf-sched"] = VfSchedConnector
    connector_classes["vf-sched-wrap"] = VfSchedWrapper

    class _NS:
        pass

    NS = _NS()
    NS.Req = Req
    NS.VfSchedConnector = VfSchedConnector
    NS.VfSchedWrapper = VfSchedWrapper
    _registered = True
    return NS


NS: Any = None


async def deploy_world(ctx, world: World) -> dict:
    """Deploy every deployment of the world (inner ones first) through the real DeploymentManager;
    returns deployment name -> DeploymentConfig."""
    from streamflow.core.deployment import DeploymentConfig, WrapsConfig

    register()
    cfgs = {}
    for name in world.top:
        if name in world.wraps:
            iname = world.wraps[name]
            icfg = DeploymentConfig(name=iname, type="vf-sched", config={"world": world}, lazy=False)
            await ctx.deployment_manager.deploy(icfg)
            cfg = DeploymentConfig(name=name, type="vf-sched-wrap", config={"world": world}, lazy=False,
                                   wraps=WrapsConfig(deployment=iname))
        else:
            cfg = DeploymentConfig(name=name, type="vf-sched", config={"world": world}, lazy=False)
        await ctx.deployment_manager.deploy(cfg)
        cfgs[name] = cfg
    return cfgs


# ------------------------------------------------------------------------------------------------
# the history interpreter


class History:
    """Runs ``case`` (world + ops) against a fresh DefaultScheduler and the model side by side.

    ``oracle`` in {"C10", "C11", "C12", "C13"} selects which invariant raises; the bookkeeping is the
    same for all. ``serial`` (C13) settles after every operation so that each grant has one cause."""

    def __init__(self, case: dict, oracle: str, *, serial: bool = False, root: str = ""):
        self.case = case
        self.oracle = oracle
        self.serial = serial
        self.root = root
        self.jobs: list[dict] = []  # job records, index = creation order
        self.pending_violation: Violation | None = None
        self.stats = {"waited": 0, "waited_granted": 0, "dups": 0, "rel_fireable": 0, "rel_running": 0, "resched": 0,
                      "grants": 0, "quiescent": 0, "max_competing": 0, "never_fit": 0, "multi_loc": 0, "stacked_grants": 0,
                      "storage_kept": 0, "notifies": 0, "c13_choice": 0, "c13_not_first_declared": 0}
        self.grant_log: list[str] = []
        self.nested_locs: set[str] = set()  # inner locations that hosted a job through a bind containing an inner mount
        self.multi_locs: set[str] = set()  # inner locations that hosted a multi-location job with bound storage

    # -- setup ------------------------------------------------------------------------------------
    async def setup(self):
        from vf.engine.detloop import Chaos
        from vf.engine.harness import make_context

        self.chaos = Chaos(self.case.get("schedule", []))
        self.world = World(self.case["world"], self.chaos, self.root)
        self.model = Model(self.world)
        self.ctx = make_context(self.chaos)
        self.sched = self.ctx.scheduler
        self.bindings = self.case["world"]["bindings"]
        self.reqs = self.case["world"]["reqs"]
        # every requirement path any schedule op of the case may use (for pre-declaration)
        for j in range(MAX_JOBS):
            for a in range(MAX_ATTEMPTS):
                for b in BASES:
                    for k in KEYS:
                        self.world.paths.add(self.world.p(f"{b}/j{j}.{a}.{k}"))
        for lname, info in self.world.locs.items():
            for b in info.binds.values():
                self.world.paths.add(b)
        self.cfgs = await deploy_world(self.ctx, self.world)
        # record the order in which allocations are made (instance wrap; C13 replays grants in order)
        orig = self.sched._allocate_job

        def logged(job, hardware, connector, selected_locations, target):
            self.grant_log.append(job.name)
            return orig(job=job, hardware=hardware, connector=connector, selected_locations=selected_locations, target=target)

        self.sched._allocate_job = logged
        # record what the filter chain hands to the scheduler (proxy objects in binding_filter_map)
        self.filter_seen: dict[str, list] = {}
        hist = self

        class Recorder:
            def __init__(self, real):
                self.real = real
                self.name = real.name

            async def get_targets(self, job, targets):
                out = await self.real.get_targets(job, targets)
                hist.filter_seen[job.name] = list(out)
                return out

        for bi in range(len(self.bindings)):
            for cfg in self._filters(bi):
                real = self.sched._get_binding_filter(cfg)
                if not isinstance(real, Recorder):
                    self.sched.binding_filter_map[cfg.name] = Recorder(real)

    async def teardown(self):
        cur = asyncio.current_task()
        tasks = [t for t in asyncio.all_tasks() if t is not cur and not t.done()]
        for t in tasks:
            t.cancel()
        if tasks:
            await asyncio.wait(tasks)
        for t in tasks:
            if not t.cancelled():
                t.exception()
        await self.ctx.close()

    # -- helpers ----------------------------------------------------------------------------------
    def _violate(self, prop: str, kind: str, msg: str):
        v = Violation(f"{prop}:{kind}", msg + "\n" + self.describe())
        if prop == self.oracle:
            raise v

    def describe(self) -> str:
        lines = []
        for j in self.jobs:
            a = j["alloc"]
            lines.append(f"  {j['name']}: model={j['status']} pending={j['task'] is not None} "
                         f"alloc={(a['target'], a['locs']) if a else None} req={j['req']}")
        hl = {k: (h.cores, h.memory, {m: s.size for m, s in h.storage.items()}) for k, h in self.sched.hardware_locations.items()}
        lines.append(f"  hardware_locations={hl}")
        lines.append(f"  retained(model, bytes)={self.model.retained}")
        return "\n".join(lines)

    def loc_tag(self, name: str | None, nested: tuple | set = (), shared_first: bool = False) -> str:
        """Root-cause bucket suffix for a violation observed on (inner) location ``name``: the stacked
        shapes with recorded findings get their own kinds, so that they never hide a violation elsewhere.
        ``nested``: further locations known to be reached through a bind that contains an inner mount.
        Release-side oracles (C11, C12) look at the release defects first: they also hit inner locations
        shared by several outer ones, whose own defect (requirement multiplied) is fixed in the repository;
        C10 (``shared_first``) looks at the shared shape first (joint validity of multi-location targets)."""
        if name is None:
            return ""
        shared = ":shared-inner" if len(self.world.outer_sharing(name)) > 1 else ""
        if shared_first and shared:
            return shared
        if name in self.nested_locs or name in nested:
            return ":inner-mount-under-bind"
        if name in self.multi_locs:
            return ":multi-location-stacked"
        return shared

    def active_allocs(self) -> list[dict]:
        return [j["alloc"] for j in self.jobs if j["alloc"] is not None and j["status"] in ACTIVE]

    def _targets(self, bi: int):
        from streamflow.core.deployment import Target

        tg = self.bindings[bi]["targets"]

        def make(i):
            dep, k, svc = tg[i]
            dname = self.world.top[dep % len(self.world.top)]
            return Target(deployment=self.cfgs[dname], locations=k, service=(None if svc is None else f"svc{svc}"))

        return [make(i) for i in range(len(tg))]

    def _filters(self, bi: int):
        from streamflow.core.deployment import FilterConfig

        out = []
        for fi, rules in enumerate(self.bindings[bi].get("filters", [])):
            cfg = []
            for dep, svc, preds in rules:
                dname = f"d{dep}"
                tgt = dname if svc is None else {"deployment": dname, "service": f"svc{svc}"}
                cfg.append({"target": tgt, "job": [{"port": f"p{p}", "match": m} for p, m in preds]})
            out.append(FilterConfig(name=f"b{bi}f{fi}", type="matching", config={"filters": cfg}))
        return out

    def ref_survivors(self, bi: int, inputs: dict | None) -> list[int]:
        """Reference filter chain: indices of the declared targets that survive, in declared order."""
        tg = self.bindings[bi]["targets"]
        alive = list(range(len(tg)))
        for rules in self.bindings[bi].get("filters", []):
            nxt = []
            for i in alive:
                dep, _, svc = tg[i]
                dname = self.world.top[dep % len(self.world.top)]
                for rdep, rsvc, preds in rules:
                    if f"d{rdep}" == dname and (rsvc is None or rsvc == svc) and all(str((inputs or {}).get(f"p{p}")) == m for p, m in preds):
                        nxt.append(i)
                        break
            alive = nxt
        return alive

    # -- operations -------------------------------------------------------------------------------
    def new_job(self, bi: int, ri: int, usage: list[int], inputs: dict | None = None, fail: bool = False) -> dict:
        bi = bi % len(self.bindings)
        j = {"idx": len(self.jobs), "name": f"/b{bi}/0.{len(self.jobs)}", "bi": bi, "req": self.reqs[ri % len(self.reqs)],
             "usage": list(usage), "attempt": -1, "status": None, "task": None, "alloc": None, "notify": None,
             "waited": False, "inputs": inputs, "ever_ran": False, "paths": {}, "mreq": None, "survivors": [], "last_alloc": None,
             "fail": bool(fail) and not self.world.local}  # local tier: a removed directory simply measures 0
        self.jobs.append(j)
        return j

    def reschedulable(self) -> list[dict]:
        return [j for j in self.jobs if j["status"] == "ROLLBACK" and j["task"] is None and j["attempt"] + 1 < MAX_ATTEMPTS]

    async def op_schedule(self, pick: int, bi: int, ri: int, usage: list[int], inputs: dict | None = None, fail: bool = False):
        elig = self.reschedulable()
        fresh = len(self.jobs) < MAX_JOBS
        n = len(elig) + (1 if fresh else 0)
        if n == 0:
            return
        i = pick % n
        if i < len(elig):
            # the recovery workflow schedules the same job name again (same step: same binding, same requirement)
            await self.start_schedule(elig[i])
        else:
            await self.start_schedule(self.new_job(bi, ri, usage, inputs, fail))

    async def start_schedule(self, j: dict):
        from streamflow.core.config import BindingConfig
        from streamflow.core.exception import WorkflowExecutionException
        from streamflow.core.workflow import Job, Token

        ns = register()
        j["attempt"] += 1
        if j["attempt"] > 0:
            self.stats["resched"] += 1
        req = j["req"]
        paths = {}
        if req is not None:
            for ki, (key, (base, size)) in enumerate(sorted(req["entries"].items())):
                d = f"j{j['idx']}.{j['attempt']}.{key}"
                paths[key] = self.world.p(f"{BASES[base]}/{d}")
                # a job stays within the storage it asked for (measured usage <= requested size); otherwise the
                # retained usage can exceed the capacity, which is outside the statements of C10-C12
                self.world.usage[d] = min(j["usage"][ki % len(j["usage"])], size) * (MIB // U) if j["usage"] else 0
                if j["fail"]:
                    self.world.fail_usage.add(d)
            self.prepare_dirs(paths)
        j["paths"] = paths
        j["mreq"] = None if req is None else {"cores": req["cores"], "mem": req["mem"],
                                              "entries": {k: s for k, (_, s) in req["entries"].items()}}
        hreq = None if req is None else ns.Req(req["cores"], req["mem"], j["mreq"]["entries"], paths)
        targets = self._targets(j["bi"])
        j["targets"] = targets
        binding = BindingConfig(targets=targets, filters=self._filters(j["bi"]))
        job = Job(j["name"], 0, {k: Token(v) for k, v in (j["inputs"] or {}).items()}, None, None, None)
        await self.await_previous_notify(j)
        j["survivors"] = self.ref_survivors(j["bi"], j["inputs"])
        if not j["survivors"]:
            # no target survives the reference filter chain: the documented outcome is the filter's exception
            self.stats["no_survivor"] = self.stats.get("no_survivor", 0) + 1
            try:
                await self.sched.schedule(job, binding, hreq)
            except WorkflowExecutionException:
                pass
            else:
                self._violate("C13", "filter-empty-no-exception", f"no target of {j['name']} survives the filters, yet schedule() returned")
            if j["status"] is None:
                self.jobs.remove(j)
            else:
                j["attempt"] = MAX_ATTEMPTS  # the recovery cannot re-schedule it; stays in ROLLBACK
            return
        j["status"] = "PENDING"
        j["alloc"] = None
        j["task"] = asyncio.create_task(self.sched.schedule(job, binding, hreq), name=f"schedule-{j['name']}")
        j["task"].add_done_callback(lambda t: self.anytime_check())

    def prepare_dirs(self, paths: dict[str, str]) -> None:
        """Local tier: create the job's directories with files of the drawn sizes."""

    async def op_notify(self, pick: int, code: int):
        from streamflow.core.workflow import Status

        elig = [j for j in self.jobs if j["task"] is None and j["status"] in ALLOWED]
        if not elig:
            return
        j = elig[pick % len(elig)]
        allowed = ALLOWED[j["status"]]
        status = allowed[code % len(allowed)]
        await self.notify(j, status)

    async def op_recover(self, pick: int):
        """One step of a recovery: a job in RECOVERY or in a terminal status is rolled back
        (RollbackFailureManager._update_request), a rolled-back job is scheduled again."""
        rb = self.reschedulable()
        if rb:
            await self.start_schedule(rb[pick % len(rb)])
            return
        cand = [j for j in self.jobs if j["task"] is None and j["status"] in ("RECOVERY",) + TERMINAL]
        if cand:
            await self.notify(cand[pick % len(cand)], "ROLLBACK")
            return
        act = [j for j in self.jobs if j["task"] is None and j["status"] in ACTIVE]
        if act:
            await self.notify(act[pick % len(act)], "RECOVERY")

    async def await_previous_notify(self, j: dict):
        if j["notify"] is not None and not j["notify"].done():
            await asyncio.wait([j["notify"]])
        self.check_notify_results()  # an exception of the previous call is judged there, not re-raised raw

    async def notify(self, j: dict, status: str):
        from streamflow.core.workflow import Status

        await self.await_previous_notify(j)  # one caller per job: its notifications are sequential
        prev = j["status"]
        self.stats["notifies"] += 1
        if status == prev:
            self.stats["dups"] += 1
        if prev in ACTIVE and status not in ACTIVE:
            self.stats["rel_fireable" if prev == "FIREABLE" else "rel_running"] += 1
            self.model.release(j["alloc"])
            if not j["fail"] and any(self.model.usage_of(p) for p in j["paths"].values()):
                self.stats["storage_kept"] += 1
        if status == "RUNNING":
            j["ever_ran"] = True
        j["status"] = status
        j["notify"] = asyncio.create_task(self.sched.notify_status(j["name"], Status[status]), name=f"notify-{j['name']}-{status}")
        j["notify"].add_done_callback(lambda t: self.anytime_check())

    def check_notify_results(self):
        from streamflow.core.exception import WorkflowExecutionException

        for j in self.jobs:
            t = j["notify"]
            if t is None or not t.done() or j.get("notify_seen") is t:
                continue
            j["notify_seen"] = t
            exc = t.exception()
            if exc is None:
                continue
            a = j["last_alloc"]
            if isinstance(exc, WorkflowExecutionException) and "cannot have negative size" in str(exc) and a is not None and any(
                    nested_under_bind(self.world, l, a["req"], a["paths"]) or self.world.locs[l].inner in self.nested_locs for l in a["locs"]):
                self.stats["release_raised"] = self.stats.get("release_raised", 0) + 1
                self._violate("C11", "release-raises:inner-mount-under-bind",
                              f"notify_status({j['name']}, {j['status']}) raised {type(exc).__name__}: {exc}")
                raise Abort()  # other oracles: the release did not happen, the rest of the history is void
            raise exc

    def poll(self):
        """Move finished schedule() tasks into the model (re-raises their exceptions)."""
        from streamflow.core.exception import WorkflowExecutionException

        self.raise_pending()
        self.check_notify_results()
        done = [j for j in self.jobs if j["task"] is not None and j["task"].done()]
        # grants are processed in the order the scheduler made them
        order = {name: i for i, name in enumerate(self.grant_log)}
        done.sort(key=lambda j: order.get(j["name"], 1 << 30))
        for j in done:
            t = j["task"]
            j["task"] = None
            try:
                t.result()
            except WorkflowExecutionException as e:
                # the scheduler trips over its own over-allocated inner location (free storage < 0): this is the
                # C10 finding on shared inner locations, already recorded by the anytime check; void for C11/C12
                if "cannot have negative size" in str(e) and self.pending_violation is not None \
                        and self.pending_violation.kind == "C10:over-allocation:shared-inner":
                    self.stats["void_over_allocation"] = 1
                    raise Abort() from None
                # ... or over the storage that a release through a bind containing an inner mount point left on the
                # wrong mount point of the inner location (C11 finding)
                cands = [l for ti in j["survivors"] for l in self.world.deployments[self.world.top[self.bindings[j["bi"]]["targets"][ti][0] % len(self.world.top)]]]
                # same C10 finding when the exception comes before the anytime check had a chance to record the
                # over-allocation: a multi-location target whose outer locations share one inner location
                multi = any(self.bindings[j["bi"]]["targets"][ti][1] >= 2 for ti in j["survivors"])
                shared_inner = any(
                    self.world.locs[l].inner is not None and len(self.world.outer_sharing(self.world.locs[l].inner)) > 1 for l in cands
                )
                if "cannot have negative size" in str(e) and multi and shared_inner:
                    self._violate("C10", "over-allocation:shared-inner", f"schedule({j['name']}) raised {type(e).__name__}: {e}")
                    raise Abort() from None
                if "cannot have negative size" in str(e) and any(self.world.locs[l].inner in self.nested_locs for l in cands):
                    self._violate("C11", "not-restored:inner-mount-under-bind", f"schedule({j['name']}) raised {type(e).__name__}: {e}")
                    raise Abort() from None
                raise
            a = self.sched.job_allocations.get(j["name"])
            if a is None or a.status.name != "FIREABLE":
                self._violate(self.oracle, "schedule-returned-without-allocation",
                              f"schedule({j['name']}) returned but allocation is {None if a is None else a.status.name}")
            ti = next((i for i, tg in enumerate(j["targets"]) if tg is a.target), None)
            locs = [l.name for l in a.locations]
            if ti is None:
                self._violate(self.oracle, "foreign-target", f"{j['name']} allocated on a target that is not in its binding")
            dep, k, _ = self.bindings[j["bi"]]["targets"][ti]
            dname = self.world.top[dep % len(self.world.top)]
            if len(locs) != k or len(set(locs)) != len(locs) or any(l not in self.world.deployments[dname] for l in locs):
                self._violate("C10", "bad-location-set", f"{j['name']}: target d={dname} locations={k} but allocated on {locs}")
            cand = {"job": j["name"], "target": ti, "locs": locs, "req": j["mreq"], "paths": j["paths"], "fail": j["fail"]}
            self.c13_grant(j, cand)
            j["alloc"] = cand
            j["last_alloc"] = cand
            for l in locs:
                if nested_under_bind(self.world, l, cand["req"], cand["paths"]):
                    self.nested_locs.add(self.world.locs[l].inner)
                lv = req_levels(self.world, l, cand["req"], cand["paths"])
                if k > 1 and len(lv) > 1 and lv[1][1]["mounts"]:
                    self.multi_locs.add(lv[1][0])
            j["status"] = "FIREABLE"
            self.stats["grants"] += 1
            if j["waited"]:
                self.stats["waited_granted"] += 1
            if k > 1:
                self.stats["multi_loc"] += 1
            if self.world.locs[locs[0]].stacked:
                self.stats["stacked_grants"] += 1
        # (grant_log entries are consumed by name order only; keep it bounded)
        if len(self.grant_log) > 10_000:
            del self.grant_log[:5000]

    # -- oracles ----------------------------------------------------------------------------------
    def anytime_check(self):
        """C10, from public state only, at the completion of every scheduler call: requirements are
        the harness's own records, statuses and locations come from ``job_allocations``."""
        if self.pending_violation is not None:
            return
        try:
            self.check_c10_public()
        except Violation as v:
            self.pending_violation = v  # sticky: raised by the main task if the oracle is C10

    def raise_pending(self):
        if self.pending_violation is not None and self.oracle == "C10":
            raise self.pending_violation

    def check_c10_public(self):
        by_name = {j["name"]: j for j in self.jobs}
        active = []
        for name, a in self.sched.job_allocations.items():
            if a.status.name in ACTIVE:
                j = by_name[name]
                active.append({"job": name, "locs": [l.name for l in a.locations], "req": j["mreq"], "paths": j["paths"]})
        bad = self.model.over(active)
        if bad:
            nested = {self.world.locs[l].inner for a in active for l in a["locs"] if nested_under_bind(self.world, l, a["req"], a["paths"])}
            tag = max((self.loc_tag(b.split(":")[0], nested, shared_first=True) for b in bad), default="")
            v = Violation("C10:over-allocation" + tag,
                          "; ".join(bad) + f"\nactive={[(a['job'], a['locs']) for a in active]}\n" + self.describe())
            raise v
        comp = max([t["jobs"] for t in self.model.reserved(active).values()], default=0)
        self.stats["max_competing"] = max(self.stats["max_competing"], comp)

    def check_status_agreement(self):
        for j in self.jobs:
            if j["task"] is not None or j["status"] in (None, "PENDING"):
                continue
            a = self.sched.job_allocations.get(j["name"])
            got = None if a is None else a.status.name
            if got != j["status"]:
                self._violate(self.oracle, "status-mismatch", f"{j['name']}: notified {j['status']} but job_allocations says {got}")

    def check_c11(self):
        hl = self.sched.hardware_locations
        for name, h in hl.items():
            if h.cores < 0 or h.memory < 0 or any(s.size < 0 for s in h.storage.values()):
                tag = self.loc_tag(name)
                self._violate("C11", ("not-restored" + tag) if tag else "negative-reservation", f"hardware_locations[{name}] = {h}")
        if self.active_allocs() or any(j["task"] is not None and j["task"].done() for j in self.jobs):
            return
        # every allocated job has left FIREABLE / RUNNING
        self.stats["idle_points"] = self.stats.get("idle_points", 0) + 1
        for name, h in hl.items():
            tag = self.loc_tag(name)
            problems = []
            if h.cores != 0 or h.memory != 0:
                kind = "leak" if (h.cores > 0 or h.memory > 0) else "double-release"
                problems.append((kind, f"keeps cores={h.cores} memory={h.memory}"))
            exp = self.model.retained.get(name, {})
            norm: dict[str, float] = {}
            for s in h.storage.values():
                norm[s.mount_point] = norm.get(s.mount_point, 0.0) + s.size
            for mp in sorted(set(norm) | set(exp)):
                e = exp.get(mp, 0) / MIB
                g = norm.get(mp, 0.0)
                if abs(g - e) > 1e-9 * max(1.0, abs(e)):
                    problems.append(("storage-leak" if g > e else "storage-under",
                                     f"storage {mp} = {g} MiB, measured usage of the released jobs' directories = {e} MiB"))
            if problems:
                # on the stacked shapes with a recorded finding every manifestation goes to that finding's bucket
                kind = ("not-restored" + tag) if tag else problems[0][0]
                self._violate("C11", kind, f"no job is fireable/running but hardware_locations[{name}] " + "; ".join(p[1] for p in problems))

    def check_c12(self):
        active = self.active_allocs()
        for j in self.jobs:
            if j["task"] is None or j["task"].done():
                continue
            if not j["waited"]:
                j["waited"] = True
                self.stats["waited"] += 1
            fits_any = False
            for ti in j["survivors"]:
                dep, k, _ = self.bindings[j["bi"]]["targets"][ti]
                dname = self.world.top[dep % len(self.world.top)]
                sets = self.model.admissible_sets(active, dname, k, j["mreq"], j["paths"])
                if sets:
                    nested = {self.world.locs[l].inner for l in sets[0] if nested_under_bind(self.world, l, j["mreq"], j["paths"])}
                    tag = max((self.loc_tag(self.world.locs[l].inner, nested) for l in sets[0]), default="")
                    self._violate("C12", "request-starved" + tag,
                                  f"quiescent, yet schedule({j['name']}) is still waiting although target #{ti} ({dname}, locations={k}) "
                                  f"can host it on {sets[0]} (req={j['mreq']})")
                if self.model.admissible_sets([], dname, k, j["mreq"], j["paths"]):
                    fits_any = True
            j["fits_total"] = fits_any

    def c13_grant(self, j: dict, cand: dict):
        """At the time of the grant the chosen target must be the first target, in the order the
        scheduler received from the filter chain (declared order when there is no filter), that the
        model finds admissible in the state just before the grant; the received targets must be exactly
        the reference survivors. (That the filters themselves keep the declared order is the filter
        tier's subject: set-based filter output depends on object addresses, so an end-to-end verdict
        would not be a function of the case.)"""
        active = self.active_allocs()
        order = list(j["survivors"])
        seen = None
        if j["name"] in self.filter_seen and self.bindings[j["bi"]].get("filters"):
            seen = [next((i for i, tg in enumerate(j["targets"]) if tg is t), -1) for t in self.filter_seen[j["name"]]]
            if self.serial and sorted(seen) != sorted(order):
                self._violate("C13", "filter-survivors", f"{j['name']}: the filter chain handed targets {seen} to the scheduler, reference survivors {order}")
            order = seen
        adm = []
        for ti in order:
            dep, k, _ = self.bindings[j["bi"]]["targets"][ti]
            dname = self.world.top[dep % len(self.world.top)]
            if self.model.admissible_sets(active, dname, k, j["mreq"], j["paths"]):
                adm.append(ti)
        if len(adm) >= 2:
            self.stats["c13_choice"] += 1
            if adm[0] != order[0]:
                self.stats["c13_not_first_declared"] += 1
        if adm and adm[0] != order[0]:
            self.stats["c13_skipped_first"] = self.stats.get("c13_skipped_first", 0) + 1
        if not self.serial:
            return
        ti = cand["target"]
        if ti not in j["survivors"]:
            self._violate("C13", "placed-on-filtered-target", f"{j['name']} placed on target #{ti}, survivors are {j['survivors']}")
        if adm and ti != adm[0]:
            self._violate("C13", "not-first-admissible", f"{j['name']} placed on target #{ti}; admissible targets in the order the scheduler "
                                                        f"received them: {adm} (received {order}, declared survivors {j['survivors']})")
        if not adm:
            self._violate("C13", "placed-on-inadmissible-target", f"{j['name']} placed on target #{ti} although the model finds no admissible target")

    async def quiesce(self):
        from vf.engine.detloop import settle

        await settle()
        self.poll()
        self.raise_pending()
        self.stats["quiescent"] += 1
        self.check_status_agreement()
        if self.oracle == "C10":
            self.check_c10_public()
        self.check_c11()
        self.check_c12()

    async def run_ops(self):
        for op in self.case["ops"]:
            self.poll()
            kind = op[0]
            if kind == "s":
                await self.op_schedule(op[1], op[2], op[3], op[4], op[5] if len(op) > 5 else None, bool(op[6]) if len(op) > 6 else False)
            elif kind == "n":
                await self.op_notify(op[1], op[2])
            elif kind == "r":
                await self.op_recover(op[1])
            elif kind == "q":
                await self.quiesce()
            if self.serial and kind != "q":
                await self.quiesce()
        await self.quiesce()

    async def drain(self):
        """Drive every allocated job to a terminal status in a drawn order (protocol-conforming),
        one notification per quiescent point, so blocked requests see releases in arbitrary orders."""
        ranks = self.case.get("drain", [])
        step = 0
        while True:
            act = [j for j in self.jobs if j["task"] is None and j["status"] in ACTIVE]
            if not act:
                break
            r = ranks[step % len(ranks)] if ranks else 0
            step += 1
            j = act[r % len(act)]
            if j["status"] == "FIREABLE":
                nxt = ["RUNNING", "RUNNING", "FAILED", "RECOVERY", "CANCELLED"][(r // 7 + step) % 5]
            else:
                nxt = ["COMPLETED", "COMPLETED", "FAILED", "RUNNING", "RECOVERY"][(r // 7 + step) % 5]
            await self.notify(j, nxt)
            await self.quiesce()
            if step > 400:
                raise HarnessError("drain does not converge")
        self.stats["never_fit"] = len([j for j in self.jobs if j["task"] is not None and not j["task"].done()])
        # (the last quiescent point had no fireable/running job: check_c12 there is the "once all other jobs are
        # terminal, every request that fits some target must have been granted" half of the statement)


MAX_JOBS = 8
MAX_ATTEMPTS = 3


async def run_history(case: dict, oracle: str, *, serial: bool = False, root: str = "", history_cls=History) -> History:
    h = history_cls(case, oracle, serial=serial, root=root)
    h.aborted = False
    await h.setup()
    try:
        await h.run_ops()
        await h.drain()
    except Abort:
        h.aborted = True
    finally:
        await h.teardown()
    return h


# ------------------------------------------------------------------------------------------------
# strategies

q8 = st.integers  # readability: quantities in 1/8


def hw_loc(lo=4, hi=24):
    return st.fixed_dictionaries({"cores": st.integers(lo, hi), "mem": st.integers(lo, hi), "root": st.integers(lo, hi), "data": st.integers(lo, hi)})


slot_loc = st.fixed_dictionaries({"slots": st.integers(1, 3)})


@st.composite
def deployment(draw, allow_stack=True, tight=False):
    """``tight`` (C13): small capacities, so that early targets of a binding are often full."""
    kind = draw(st.sampled_from(["hw", "slots", "slots"] if tight else ["hw", "hw", "slots"]))
    n = draw(st.sampled_from([1, 1, 1, 2] if tight else [1, 1, 2, 2, 3]))
    if tight:
        locs = draw(st.lists(hw_loc(4, 10) if kind == "hw" else st.fixed_dictionaries({"slots": st.sampled_from([1, 1, 2])}), min_size=n, max_size=n))
    else:
        locs = draw(st.lists(hw_loc() if kind == "hw" else slot_loc, min_size=n, max_size=n))
    d = {"kind": kind, "data": draw(st.booleans()), "locs": locs, "stack": None}
    if allow_stack and draw(st.integers(0, 9)) < 4:
        d["stack"] = {
            "shape": draw(st.sampled_from(["one2one", "shared"])),
            "inner": draw(st.lists(hw_loc(6, 32), min_size=n, max_size=n)),
            "data": draw(st.booleans()),
            "bind": draw(st.sampled_from(["same", "same", "moved", "none"])),
            "root_bind": draw(st.booleans()),
        }
    return d


requirement = st.one_of(
    st.none(),
    *[st.fixed_dictionaries({
        "cores": st.integers(0, 16),
        "mem": st.integers(0, 16),
        "entries": st.one_of(
            st.fixed_dictionaries({"__outdir__": st.tuples(st.integers(0, 1), st.integers(0, 12))}),
            st.fixed_dictionaries({"__outdir__": st.tuples(st.integers(0, 1), st.integers(0, 12)),
                                   "__tmpdir__": st.tuples(st.integers(0, 1), st.integers(0, 12))}),
        ),
    })] * 5,
)


@st.composite
def world(draw, filters=False, allow_stack=True, max_deps=3):
    nd = draw(st.sampled_from([1, 2, 2, 3, 3] if filters else [1, 1, 2, 2, 3][: 2 * max_deps - 1]))
    deps = [draw(deployment(allow_stack, tight=filters)) for _ in range(nd)]
    nb = draw(st.integers(1, 3))
    bindings = []
    for _ in range(nb):
        nt = draw(st.sampled_from([1, 1, 2, 2, 3] if not filters else [1, 2, 2, 3, 3, 4]))
        targets = []
        for _ in range(nt):
            di = draw(st.integers(0, nd - 1))
            nl = len(deps[di]["locs"])
            k = draw(st.sampled_from([1, 1, 1, 2])) if nl > 1 else 1
            svc = draw(st.sampled_from([None, None, 0, 1]))
            targets.append([di, min(k, nl), svc])
        b = {"targets": targets}
        if filters:
            b["filters"] = draw(filter_chain(nd, targets=targets, pool=["a", "1"]))
        bindings.append(b)
    reqs = draw(st.lists(requirement, min_size=1, max_size=4))
    return {"deps": deps, "bindings": bindings, "reqs": reqs, "predeclare": draw(st.booleans())}


MATCH_POOL = ["a", "b", "1", "2"]
VALUE_POOL = ["a", "b", "1", "2", 1, 2]


@st.composite
def filter_chain(draw, nd, max_filters=2, targets=None, inputs=None, pool=None):
    """0..max_filters matching filters of 1..3 rules x 1..2 predicates: [deployment index, service index
    or None, [[port index, match]...]]. Rules are biased towards the given targets / input values so that
    chains with several survivors are common."""
    pool = pool or MATCH_POOL
    chain = []
    for _ in range(draw(st.sampled_from([0, 1, 1, 2][: max_filters + 2]))):
        rules = []
        for _ in range(draw(st.integers(1, 3))):
            ports = draw(st.lists(st.integers(0, 1), min_size=1, max_size=2, unique=True))
            preds = []
            for p in ports:
                if inputs is not None and draw(st.integers(0, 9)) < 8:
                    preds.append([p, str(inputs[f"p{p}"])])
                else:
                    preds.append([p, draw(st.sampled_from(pool))])
            if targets and draw(st.integers(0, 9)) < 8:
                t = draw(st.sampled_from(targets))
                dep, svc = t[0], t[-1]
                rules.append([dep, draw(st.sampled_from([None, None, svc])), preds])
            else:
                rules.append([draw(st.integers(0, nd - 1)), draw(st.sampled_from([None, None, None, 0, 1])), preds])
        chain.append(rules)
    return chain


job_inputs = st.fixed_dictionaries({"p0": st.sampled_from(VALUE_POOL), "p1": st.sampled_from(VALUE_POOL)})
small_inputs = st.fixed_dictionaries({"p0": st.sampled_from(["a", "a", 1, "b"]), "p1": st.sampled_from(["a", 1, 1, "b"])})


def ops(filters=False, max_size=40):
    s = st.tuples(st.just("s"), st.integers(0, 7), st.integers(0, 2), st.integers(0, 3),
                  st.lists(st.sampled_from([0, 1, 1, 2, 2, 3]), min_size=1, max_size=2), small_inputs if filters else st.none(),
                  st.sampled_from([0, 0, 1]))  # last: the release-time usage query of this job fails
    n = st.tuples(st.just("n"), st.integers(0, 15), st.integers(0, 23))
    q = st.tuples(st.just("q"))
    r = st.tuples(st.just("r"), st.integers(0, 7))
    mix = [s, s, s, s, s, n, n, n, r] if filters else [s, s, s, s, n, n, n, n, n, n, r, q, q, q]
    return st.lists(st.one_of(*mix), min_size=4, max_size=max_size).map(lambda l: [list(x) for x in l])


def history_case(filters=False, allow_stack=True, max_ops=40):
    return st.fixed_dictionaries({
        "world": world(filters=filters, allow_stack=allow_stack),
        "ops": ops(filters=filters, max_size=max_ops),
        "drain": st.lists(st.integers(0, 69), max_size=8),
        "schedule": st.lists(st.integers(0, 3), max_size=8),
    })


# ------------------------------------------------------------------------------------------------
# bounded-exhaustive tier: every protocol-conforming history of <= N operations over 2 jobs on one
# location, each operation followed by quiescence (explicit operations ["S", job] / ["N", job, status])

_HWLOC = {"cores": 8, "mem": 8, "root": 8, "data": 8}
EXH_CONFIGS = [
    ("slots=1", {"deps": [{"kind": "slots", "data": False, "locs": [{"slots": 1}], "stack": None}],
                 "bindings": [{"targets": [[0, 1, None]]}], "reqs": [None, None], "predeclare": True}, True, False),
    ("hardware, jobs exclude each other", {
        "deps": [{"kind": "hw", "data": True, "locs": [_HWLOC], "stack": None}], "bindings": [{"targets": [[0, 1, None]]}],
        "reqs": [{"cores": 6, "mem": 2, "entries": {"__outdir__": [1, 3]}}, {"cores": 4, "mem": 2, "entries": {"__outdir__": [0, 2]}}],
        "predeclare": True}, False, False),
    ("hardware, jobs fit together until retained usage fills the mount", {
        "deps": [{"kind": "hw", "data": True, "locs": [_HWLOC], "stack": None}], "bindings": [{"targets": [[0, 1, None]]}],
        "reqs": [{"cores": 3, "mem": 4, "entries": {"__outdir__": [1, 3]}}, {"cores": 4, "mem": 4, "entries": {"__outdir__": [1, 3], "__tmpdir__": [0, 1]}}],
        "predeclare": False}, False, True),
]  # (name, world, jobs are symmetric, both jobs are granted when scheduled back to back[, jobs whose usage query fails])
EXH_CONFIGS.append(("hardware, jobs exclude each other, usage query of job 0 fails on release",
                    EXH_CONFIGS[1][1], False, False, (0,)))


class ExplicitHistory(History):
    def __init__(self, case, oracle, symmetric: bool, fail_jobs: tuple = ()):
        super().__init__(case, oracle, serial=True)
        self.by_id: dict[int, dict] = {}
        self.symmetric = symmetric
        self.fail_jobs = fail_jobs

    def valid_next(self) -> list[list]:
        out: list[list] = []
        for jid in (0, 1):
            j = self.by_id.get(jid)
            if j is None:
                if not (self.symmetric and jid == 1 and 0 not in self.by_id):
                    out.append(["S", jid])
                continue
            if j["task"] is not None:
                continue
            if j["status"] == "ROLLBACK" and j["attempt"] + 1 < MAX_ATTEMPTS:
                out.append(["S", jid])
            if j["status"] in ALLOWED:
                for st_ in sorted(set(ALLOWED[j["status"]])):
                    out.append(["N", jid, st_])
        return out

    async def explicit(self, op: list):
        if op[0] == "S":
            j = self.by_id.get(op[1])
            if j is None:
                j = self.by_id[op[1]] = self.new_job(0, op[1], [2, 1], None, op[1] in self.fail_jobs)
            await self.start_schedule(j)
        else:
            await self.notify(self.by_id[op[1]], op[2])
        await self.quiesce()


def exhaustive_blocks(tier: str):
    """Blocks of the enumeration: (configuration, the first three operations). The three-operation
    prefixes are enumerated statically from the protocol (the interpreter re-checks that each is valid);
    together they cover every history, shorter ones as prefixes."""
    depth = 5 if tier == "quick" else 6

    def after(status):
        return sorted(set(ALLOWED[status]))

    for ci, (_, _, symmetric, together, *_rest) in enumerate(EXH_CONFIGS):
        firsts = [["S", 0]] if symmetric else [["S", 0], ["S", 1]]
        for f in firsts:
            a, b = f[1], 1 - f[1]
            thirds = [["N", a, s] for s in after("FIREABLE")] + ([["N", b, s] for s in after("FIREABLE")] if together else [])
            for t in thirds:
                yield {"config": ci, "prefix": [f, ["S", b], t], "depth": depth}
            for st_ in after("FIREABLE"):
                for t in [["S", b]] + [["N", a, s2] for s2 in after(st_)]:
                    yield {"config": ci, "prefix": [f, ["N", a, st_], t], "depth": depth}


EXH_NONTRIVIAL = {
    "C10": lambda st_: st_["waited"] >= 1,
    "C11": lambda st_: st_.get("idle_points", 0) >= 1 and (st_["dups"] >= 1 or st_["rel_fireable"] >= 1),
    "C12": lambda st_: st_["waited_granted"] >= 1,
}


async def run_exhaustive_block(case: dict, oracle: str, rec) -> None:
    name, desc, symmetric, _, *rest = EXH_CONFIGS[case["config"]]
    fail_jobs = rest[0] if rest else ()
    depth = case["depth"]
    stack = [[list(o) for o in case["prefix"]]]
    leaves = waited = 0
    while stack:
        prefix = stack.pop()
        h = ExplicitHistory({"world": desc, "ops": [], "drain": [], "schedule": []}, oracle, symmetric, fail_jobs)
        h.aborted = False
        await h.setup()
        taken: list[list] = []
        alts: list[tuple[int, list]] = []
        try:
            try:
                for d in range(depth):
                    valid = h.valid_next()
                    if d < len(prefix):
                        if prefix[d] not in valid:
                            raise HarnessError(f"enumeration prefix {prefix} is not protocol-valid at {d}: {valid}")
                        op = prefix[d]
                    else:
                        if not valid:
                            break
                        op = valid[0]
                        alts.extend((d, a) for a in valid[1:])
                    taken.append(op)
                    await h.explicit(op)
            except Violation as v:
                raise Violation(v.kind, f"[{name}] operations {taken}: {v.message}") from None
        finally:
            await h.teardown()
        for d, a in alts:
            stack.append(taken[:d] + [a])
        leaves += 1
        if EXH_NONTRIVIAL[oracle](h.stats):
            waited += 1
    rec.label(f"config:{name}")
    rec.bulk(evaluations=leaves, nontrivial=waited)
