#!/bin/bash
# usage: tools_seed_confirm.sh <seed-dir> [tests]   (seed-dir has patch.diff, demo.py, meta.json)
# Confirms in a scratch worktree: demo passes on the pristine tree, fails with the patch; with "tests"
# also runs the pinned stable test modules with the patch applied.
sd="$(cd "$1" && pwd)"; mode="${2:-}"
wt=$(mktemp -d /tmp/vfseed.XXXXXX); rmdir "$wt"
git -C /repo worktree add -q --detach "$wt" HEAD || exit 3
mkdir -p "$wt/seed/x"; cp "$sd/demo.py" "$wt/seed/x/demo.py"
cd "$wt"
PYTHONPATH="$wt" timeout 600 /venv/bin/python seed/x/demo.py >/tmp/seedc.out 2>&1; r0=$?
git apply "$sd/patch.diff" || { echo "PATCH DOES NOT APPLY"; cd /; git -C /repo worktree remove --force "$wt"; exit 3; }
PYTHONPATH="$wt" timeout 600 /venv/bin/python seed/x/demo.py >/tmp/seedc.out2 2>&1; r1=$?
echo "demo pristine rc=$r0 ; demo patched rc=$r1"
if [ "$mode" = "tests" ]; then
  HOME=$(mktemp -d /tmp/vfhome.XXXXXX) PYTHONPATH="$wt" timeout 5400 /venv/bin/python -m pytest -q -p no:cacheprovider --timeout=900 \
    tests/test_binding_filter.py tests/test_cwl_loop.py tests/test_recovery.py tests/test_recovery_utils.py tests/test_schema.py \
    tests/test_translator.py::test_dot_product_transformer_raises_error tests/test_translator.py::test_recursive_deployments tests/test_translator.py::test_workdir_inheritance \
    tests/test_scheduler.py::test_hardware tests/test_connector.py::test_command_template -k "not test_resume_" 2>&1 | tail -3
fi
cd /; git -C /repo worktree remove --force "$wt"
